#!/bin/bash
# Re-evaluate every seeded change against the check of the property it breaks (quick tier), one after the other.
# SEEDS='seeded/*-m7/ seeded/*-m8/' restricts the set.  Uses $PYBADS_REPO (default /repo); with SEED_RESULTS_DIR set, results go there instead of seeded/<id>/results.json.
cd "$(dirname "$0")/.."
for d in ${SEEDS:-seeded/*/}; do
  id=$(basename "$d")
  ./tools/seed_eval.py "$id" 2>&1 | tail -1
done
