#!/bin/bash
# usage: verify_mutant.sh <mutdir>   (contains patch.diff, demo.py) -> writes <mutdir>/verify.txt
# Confirms in a scratch worktree of /repo HEAD: patch applies, suite passes with it, demo fails with it and passes without.
M="$1"; N=$(echo "$M" | tr '/' '_'); W=/tmp/sw/$N
export OMP_NUM_THREADS=1 OPENBLAS_NUM_THREADS=1 MKL_NUM_THREADS=1
rm -rf "$W"; git -C /repo worktree prune; git -C /repo worktree add -q --detach "$W" HEAD || exit 9
out="$M/verify.txt"; : > "$out"
cd "$W"
PYTHONPATH="$W" timeout 300 /venv/bin/python "$M/demo.py" >/dev/null 2>&1; echo "demo_on_original_exit=$?" >> "$out"
if git apply --check "$M/patch.diff" 2>/dev/null; then git apply "$M/patch.diff"; echo "apply=clean" >> "$out";
elif git apply --3way "$M/patch.diff" >/dev/null 2>&1; then echo "apply=3way" >> "$out"; else echo "apply=FAILED" >> "$out"; cd /; git -C /repo worktree remove --force "$W"; exit 0; fi
git diff --stat | tail -1 >> "$out"
PYTHONPATH="$W" timeout 300 /venv/bin/python "$M/demo.py" >/dev/null 2>&1; echo "demo_on_mutant_exit=$?" >> "$out"
PYTHONPATH="$W" timeout 1500 /venv/bin/python -m pytest -q -p no:cacheprovider --timeout=900 --deselect pybads/testing/bads/test_bads_optimization.py::test_he_noisy_sphere_opt 2>&1 | tail -1 >> "$out"
cd /; git -C /repo worktree remove --force "$W"
cat "$out"
