#!/bin/bash
# Offline setup: nothing to build; verify the toolchain the checks rely on.
set -e
cd "$(dirname "$0")/.."
/venv/bin/python -c "import numpy, scipy, gpyreg; print('python ok')"
PYTHONPATH=/repo /venv/bin/python -c "import pybads, os; assert os.path.realpath(pybads.__file__).startswith('/repo/'), pybads.__file__; print('pybads from /repo ok')"
/venv/bin/python -c "import jsonschema" 2>/dev/null || /venv/bin/pip install --no-index --find-links /opt/veriftools/wheels jsonschema >/dev/null 2>&1 || echo "jsonschema unavailable in /venv (evidence is still written, unvalidated)"
command -v tlc >/dev/null && echo "tlc ok" || { echo "tlc missing"; exit 1; }
mkdir -p evidence replays
echo setup done
