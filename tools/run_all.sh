#!/bin/bash
# usage: tools/run_all.sh [quick|thorough]  -> one summary line per check
cd "$(dirname "$0")/.."
T=${1:-quick}
for i in ${CHECKS:-01 02 03 04 05 06 07 08 09 10 11 12 13 14 15 16 17 18 19 20}; do
  s=$(date +%s); out=$(./check C$i --tier $T 2>&1); code=$?
  echo "C$i exit=$code $(( $(date +%s)-s ))s $(echo "$out" | grep -c '^VIOLATION') violations $(echo "$out" | grep -c '^KNOWN-FINDING') known $(echo "$out" | grep HARNESS-ERROR | head -1 | cut -c1-150)"
done
