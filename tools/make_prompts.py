#!/venv/bin/python
"""Write the prompt for one wave of independent seeding sub-agents.

usage: tools/make_prompts.py <outdir> [ids...]     (outdir e.g. /tmp/mut5; worktrees are /tmp/wt/<ID>)
The prompt contains only the text of one property and a summary of the mechanisms earlier seeds of that
property used (so that the new ones differ); nothing about how /verif checks anything.
"""
import glob
import json
import os
import re
import sys

VERIF = os.path.dirname(os.path.dirname(os.path.abspath(__file__)))
out = sys.argv[1]
ids = sys.argv[2:]
props = {}
for line in open(os.path.join(VERIF, "properties.jsonl")):
    p = json.loads(line)
    props[p["id"]] = p

T = open(os.path.join(VERIF, "tools", "prompt_template.txt")).read()


def earlier(pid):
    rows = []
    for d in sorted(glob.glob(os.path.join(VERIF, "seeded", pid + "-m*"))):
        meta = json.load(open(os.path.join(d, "meta.json")))
        notes = open(os.path.join(d, "notes.md")).read() if os.path.exists(os.path.join(d, "notes.md")) else ""
        body = [l.strip() for l in notes.splitlines() if l.strip() and not l.startswith("#")]
        first = " ".join(body[:3])[:260]
        first = re.sub(r"/verif\S*", "", first)
        rows.append("- %s (needs: %s)" % (first, meta["needs_to_manifest"][:200]))
    return "\n".join(rows)


for pid in ids or sorted(props):
    p = props[pid]
    os.makedirs(os.path.join(out, pid), exist_ok=True)
    txt = (T.replace("@PID@", pid).replace("@OUT@", out).replace("@TITLE@", p["title"]).replace("@STATEMENT@", p["statement"])
           .replace("@QUANT@", p["quantifier"]["text"]).replace("@EARLIER@", earlier(pid)))
    open(os.path.join(out, pid, "prompt.txt"), "w").write(txt)
    print(pid, len(txt))
