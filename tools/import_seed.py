#!/venv/bin/python
"""import_seed.py <srcdir> <seed-id> <property> "<needs to manifest>" : copy a verified mutant into seeded/."""
import json, os, shutil, sys
src, sid, pid, need = sys.argv[1:5]
dst = os.path.join(os.path.dirname(os.path.dirname(os.path.abspath(__file__))), "seeded", sid)
os.makedirs(dst, exist_ok=True)
for f in ("patch.diff", "demo.py", "notes.md"):
    shutil.copy(os.path.join(src, f), os.path.join(dst, f))
ver = open(os.path.join(src, "verify.txt")).read().strip().splitlines()
assert "demo_on_original_exit=0" in ver and "demo_on_mutant_exit=1" in ver and any(l.startswith("apply=") and "FAILED" not in l for l in ver) and any("passed" in l and "failed" not in l for l in ver), ver
json.dump(dict(id=sid, property=pid, source="independent sub-agent (later wave: told which mechanisms earlier seeds used, asked for different ones) given only the property text and a scratch worktree",
               needs_to_manifest=need, confirmed=dict(what="tools/verify_mutant.sh in a scratch worktree of /repo HEAD: patch applies, demo exits 0 on the original and 1 with the patch, unedited suite passes with the patch (flaky test_he_noisy_sphere_opt deselected)", output=ver)),
          open(os.path.join(dst, "meta.json"), "w"), indent=1)
print("imported", sid)
