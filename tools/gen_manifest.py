#!/venv/bin/python
"""Regenerates /verif/MANIFEST.json from the table below and validates it against the schema."""
import json
import os
import subprocess

V = os.path.dirname(os.path.dirname(os.path.abspath(__file__)))

# pid -> (category, engine, technique, text, note, design_ref)
CHECKS = {}


def chk(pid, cat, engine, technique, text, note, ref):
    CHECKS[pid] = (cat, engine, technique, text, note, ref)


chk("C04", "model_checking", "E1",
    "stateless deviation-bounded exploration of real optimize() runs under an adversarial scripted target",
    "Every execution of the enumerated matrix (geometry x constraint x complete_poll x base answer policy x budget window) "
    "and every answer script with <= b deviations over {F,I,S,E} is run on the real optimizer; on each one the returned x/fval/fsd/"
    "target_type and the recorded history are compared with the wrapper's own call log (exact equality).",
    "Answers restricted to four classes relative to the running best; D<=2 (quick) / D<=3 (thorough); seeds derived from VERIF_SEED; "
    "gpyreg/NumPy trusted.", "DESIGN 4.4")

chk("C03", "model_checking", "M1+E1",
    "explicit-state model checking (TLC) of a TLA+ controller model bound to the code both ways, plus deviation-bounded exploration of real runs",
    "TLC checks invariants (budget, iteration bound, message truth) and <>finished on all reachable states of the loop-controller model for a "
    "matrix of constants; every complete path of the driven model graph is replayed on the real optimize() and compared field by field after "
    "every loop iteration; every explored real execution (all noise modes, budget windows, complete_poll, accelerate_mesh, max_iter, constraints, "
    "answer scripts with <= b deviations) is turned into an abstract trace that TLC accepts or rejects with the same StepC operator; independent "
    "call counter, budget, max_iter and message truth are checked per execution; a loop probe bounds non-progress iterations.",
    "Model abstracts values to 'number of large improvements'; advanced switches at defaults; liveness transfers to explored executions only; "
    "TLC/JVM, gpyreg, NumPy trusted.", "DESIGN 2.4, 4.3")
chk("C13", "model_checking", "M1+E1",
    "explicit-state model checking (TLC) of the mesh-exponent rule in the controller model + per-poll recomputation of the rule on explored real runs",
    "Same machinery as C03; the mesh rule (double on success up to the cap, halve/quarter on failure, unchanged outside polls, search mesh <= poll mesh, "
    "tol_mesh stop) is an invariant/transition rule of the model, a field of every driven replay comparison, a clause TLC judges on every implementation "
    "trace, and is recomputed from the call log at every poll step of every explored deterministic execution.",
    "In noisy modes success is judged on GP estimates that the harness does not second-guess (only double/half/quarter is required there).", "DESIGN 4.13")

chk("C01", "model_checking", "E1+E3",
    "deviation-bounded exploration of real runs (every call, constraint argument, result and log row checked against the hard box) + exhaustive table of the search-bound rounding",
    "Complete product geometry{lin,tight,log,mixed,unbounded} x start{interior,on lb,on ub,absent} x mode x landscape{adversarial, minimiser inside/corner/outside} x "
    "constraint, with answer/noise scripts of <= b deviations; at every call (not only at the end) the wrapper checks lb <= x <= ub with no tolerance, the log rows map back "
    "exactly to the logged original points and correspond to calls in order; the search-box rounding is tabulated for every reachable search exponent x a bound lattice.",
    "D<=2 quick / D<=3 thorough; seeds from VERIF_SEED; answer classes only.", "DESIGN 4.1")
chk("C02", "model_checking", "E1",
    "deviation-bounded exploration of real runs with the harness's own pure constraint function evaluated at every target call + start-point cells",
    "Constraint family {half-space, ball, thin slab, annulus} x geometry x mode x D with scripts <= b deviations: every x the target receives and the result must be feasible "
    "under the harness's own constraint function; start cells (feasible, infeasible, snapping to the mesh crosses the boundary in either direction, on the boundary) must give "
    "ValueError with zero target calls or a clean run, as the statement says.",
    "Constraints are pure vectorised functions; don't-care cells where the images of x0 disagree on feasibility are not enumerated.", "DESIGN 4.2")
chk("C05", "model_checking", "E1",
    "deviation-bounded exploration of real noisy runs (noise-class scripts) over complete budget windows; tail of the call log vs yval_vec/ysd_vec/fval/fsd",
    "mode{auto,declared,specified} x noise_final_samples{0,1,3} x every budget in a window above the measured initial design x D x geometry x noise scripts with <= b deviations "
    "(LOW outliers force the swap to an earlier iterate); noise-test cells around tol_noise decide stochastic vs deterministic classification.",
    "Noise classes {alt, LOW, HIGH}; either ddof accepted for the standard error.", "DESIGN 4.5")
chk("C09", "model_checking", "E1",
    "deviation-bounded exploration of real runs over the mode x constraint x geometry x budget matrix incl. NaN incumbent predictions and single GP-fit faults; oracle = no internal exception escapes",
    "Complete product mode{det,auto,decl,spec} x constraint{none,half,ball,slab,annulus} x geometry{lin,log,mixed} x D, corner landscapes under specified noise (repeated observations), "
    "complete budget windows x final samples, answer/noise scripts <= b, every single index of a NaN GP prediction at the incumbent and of a failing GP fit. Crashes are keyed by "
    "exception type + innermost pybads frame + configuration class.", "Well-behaved targets only; GP misbehaviour modelled as LinAlgError on entry of GP.fit / NaN prediction.", "DESIGN 4.9")
chk("C10", "fault_enumeration", "E1-faults",
    "exhaustive fault enumeration: every call index of a baseline run x every fault kind x noise mode on the real optimize()",
    "For each configuration the fault-free baseline gives N calls; every k in 0..N-1 x every fault kind (4 exception shapes, NaN, +-inf, complex, ndarray vector, list, tuple, None; "
    "under specified noise also missing/over-long tuple and SD in {0,-1,NaN,inf}) is executed; exception type, no further call, func_count == k and a clean log are checked; "
    "all phases (x0, noise test, initial design, search, poll, final re-sampling) must be hit.", "One fault per execution; strings and SD=None are not in the statement.", "DESIGN 4.10")
chk("C16", "fault_enumeration", "E1-faults",
    "exhaustive fault enumeration over GP.fit invocation indices (singles, runs of 2-4, scattered pairs) with the C01/C03/C04/C05 monitors on every faulted run",
    "LinAlgError is raised on entry of GP.fit at every single invocation index, every run of 2-4 consecutive indices and every scattered pair, for det/auto/declared/specified noise x D; "
    "optimize() must complete and keep bounds, budget/count and truthful-result guarantees.", "Fit failure modelled as LinAlgError on entry; >=10 consecutive failures are outside the statement.", "DESIGN 4.16")

NOT_BUILT = {}

ENGINES = [
    dict(name="E1", path="mc/explore.py, mc/harness.py, mc/monitors.py",
         kind_free_text="stateless deviation-bounded explorer over real BADS.optimize() executions with scripted environment answers and fault injection"),
    dict(name="E2", path="mc/bfs.py", kind_free_text="explicit-state breadth-first search over operation histories of real component objects against reference models"),
    dict(name="E3", path="mc/props/*.py", kind_free_text="exhaustive enumeration of finite input cells / of all outcomes of a randomized function's draws"),
    dict(name="M1", path="models/BadsLoop.tla, mc/tlc.py", kind_free_text="TLA+ controller model checked by TLC; model paths replayed on the code; code traces validated by TLC against Step"),
]


def main():
    props = [json.loads(l) for l in open(os.path.join(V, "properties.jsonl"))]
    hooks_commits = subprocess.run(["git", "-C", "/repo", "log", "--format=%H %s"], capture_output=True, text=True).stdout.splitlines()
    hook = [l.split()[0] for l in hooks_commits if "verif hook" in l]
    checks = []
    na = []
    for p in props:
        pid = p["id"]
        if pid in CHECKS:
            cat, engine, technique, text, note, ref = CHECKS[pid]
            checks.append(dict(
                property_id=pid,
                quick_cmd="./check %s --tier quick" % pid,
                thorough_cmd="./check %s --tier thorough" % pid,
                evidence_file="/verif/evidence/%s.json" % pid,
                replay_cmd_template="./check %s --replay {path}" % pid,
                engine=engine,
                level_claimed=dict(category=cat, text=text, design_ref=ref),
                level_note=note,
                technique=technique,
            ))
        else:
            na.append(dict(property_id=pid, reason=NOT_BUILT.get(pid, "check not built yet in this session (planned in DESIGN.md section 4); not claimed until it exists")))
    for e in ENGINES:
        e["serves_properties"] = [pid for pid, c in CHECKS.items() if e["name"] in c[1]]
    man = dict(
        version=1,
        setup_cmd="./tools/setup.sh",
        hooks=dict(guard="PYBADS_VERIF", enable="checks import /repo directly via PYTHONPATH with PYBADS_VERIF=1 and install BADS._verif_probe; nothing to build",
                   baseline_off_cmd="cd /repo && env -u PYBADS_VERIF /venv/bin/python -m pytest -ra -q -p no:cacheprovider --timeout=900 --continue-on-collection-errors",
                   source_commits=hook, add_only=True),
        engines=ENGINES,
        checks=checks,
        not_applicable=na,
        notes="All checks run the real code in /repo's working tree (PYTHONPATH=/repo); see DESIGN.md. Exit 2 + HARNESS-ERROR means the machinery itself failed (never a violation claim).",
    )
    import jsonschema

    jsonschema.validate(man, json.load(open("/root/.vp/MANIFEST.schema.json")))
    with open(os.path.join(V, "MANIFEST.json"), "w") as f:
        json.dump(man, f, indent=1)
        f.write("\n")
    print("MANIFEST.json: %d checks, %d not_applicable" % (len(checks), len(na)))


if __name__ == "__main__":
    main()
