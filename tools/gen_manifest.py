#!/venv/bin/python
"""Regenerates /verif/MANIFEST.json from the table below and validates it against the schema."""
import json
import os
import subprocess

V = os.path.dirname(os.path.dirname(os.path.abspath(__file__)))

# pid -> (category, engine, technique, text, note, design_ref)
CHECKS = {}


def chk(pid, cat, engine, technique, text, note, ref):
    CHECKS[pid] = (cat, engine, technique, text, note, ref)


chk("C04", "model_checking", "E1",
    "stateless deviation-bounded exploration of real optimize() runs under an adversarial scripted target",
    "Every execution of the enumerated matrix (geometry x constraint x complete_poll x base answer policy x budget window) "
    "and every answer script with <= b deviations over {F,I,S,E} is run on the real optimizer; on each one the returned x/fval/fsd/"
    "target_type and the recorded history are compared with the wrapper's own call log (exact equality).",
    "Answers restricted to four classes relative to the running best; D<=2 (quick) / D<=3 (thorough); seeds derived from VERIF_SEED; "
    "gpyreg/NumPy trusted.", "DESIGN 4.4")

chk("C03", "model_checking", "M1+E1",
    "explicit-state model checking (TLC) of a TLA+ controller model bound to the code both ways, plus deviation-bounded exploration of real runs",
    "TLC checks invariants (budget, iteration bound, message truth) and <>finished on all reachable states of the loop-controller model for a "
    "matrix of constants; every complete path of the driven model graph is replayed on the real optimize() and compared field by field after "
    "every loop iteration; every explored real execution (all noise modes, budget windows, complete_poll, accelerate_mesh, max_iter, constraints, "
    "answer scripts with <= b deviations) is turned into an abstract trace that TLC accepts or rejects with the same StepC operator; independent "
    "call counter, budget, max_iter and message truth are checked per execution; a loop probe bounds non-progress iterations.",
    "Model abstracts values to 'number of large improvements'; advanced switches at defaults; liveness transfers to explored executions only; "
    "TLC/JVM, gpyreg, NumPy trusted.", "DESIGN 2.4, 4.3")
chk("C13", "model_checking", "M1+E1",
    "explicit-state model checking (TLC) of the mesh-exponent rule in the controller model + per-poll recomputation of the rule on explored real runs",
    "Same machinery as C03; the mesh rule (double on success up to the cap, halve/quarter on failure, unchanged outside polls, search mesh <= poll mesh, "
    "tol_mesh stop) is an invariant/transition rule of the model, a field of every driven replay comparison, a clause TLC judges on every implementation "
    "trace, and is recomputed from the call log at every poll step of every explored deterministic execution.",
    "In noisy modes success is recomputed from the GP estimates observed at the improvement seam (posterior update required for every polled point); the sufficient-improvement threshold follows tol_improvement / forcing_exponent / sloppy_improvement / accelerate_mesh_steps.", "DESIGN 4.13")

chk("C01", "model_checking", "E1+E3",
    "deviation-bounded exploration of real runs (every call, constraint argument, result and log row checked against the hard box) + exhaustive table of the search-bound rounding",
    "Complete product geometry{lin,tight,log,mixed,unbounded} x start{interior,on lb,on ub,absent} x mode x landscape{adversarial, minimiser inside/corner/outside} x "
    "constraint, with answer/noise scripts of <= b deviations; at every call (not only at the end) the wrapper checks lb <= x <= ub with no tolerance, the log rows map back "
    "exactly to the logged original points and correspond to calls in order; the search-box rounding is tabulated for every reachable search exponent x a bound lattice.",
    "D<=2 quick / D<=3 thorough; seeds from VERIF_SEED; answer classes only.", "DESIGN 4.1")
chk("C02", "model_checking", "E1",
    "deviation-bounded exploration of real runs with the harness's own pure constraint function evaluated at every target call + start-point cells",
    "Constraint family {half-space, ball, thin slab, annulus} x geometry x mode x D with scripts <= b deviations: every x the target receives and the result must be feasible "
    "under the harness's own constraint function; start cells (feasible, infeasible, snapping to the mesh crosses the boundary in either direction, on the boundary) must give "
    "ValueError with zero target calls or a clean run, as the statement says.",
    "Constraints are pure vectorised functions; don't-care cells where the images of x0 disagree on feasibility are not enumerated.", "DESIGN 4.2")
chk("C05", "model_checking", "E1",
    "deviation-bounded exploration of real noisy runs (noise-class scripts) over complete budget windows; tail of the call log vs yval_vec/ysd_vec/fval/fsd",
    "mode{auto,declared,specified} x noise_final_samples{0,1,3} x every budget in a window above the measured initial design x D x geometry x noise scripts with <= b deviations "
    "(LOW outliers force the swap to an earlier iterate); noise-test cells around tol_noise decide stochastic vs deterministic classification.",
    "Noise classes {alt, LOW, HIGH}; the SD convention of the standard error (population / sample) is measured on runs with 3 and 5 final samples and every run is held to it.", "DESIGN 4.5")
chk("C09", "model_checking", "E1",
    "deviation-bounded exploration of real runs over the mode x constraint x geometry x budget matrix incl. NaN incumbent predictions and single GP-fit faults; oracle = no internal exception escapes",
    "Complete product mode{det,auto,decl,spec} x constraint{none,half,ball,slab,annulus} x geometry{lin,log,mixed} x D, corner landscapes under specified noise (repeated observations), "
    "complete budget windows x final samples, answer/noise scripts <= b, every single index of a NaN GP prediction at the incumbent and of a failing GP fit. Crashes are keyed by "
    "exception type + innermost pybads frame + configuration class.", "Well-behaved targets only; GP misbehaviour modelled as LinAlgError on entry of GP.fit / NaN prediction.", "DESIGN 4.9")
chk("C10", "fault_enumeration", "E1-faults",
    "exhaustive fault enumeration: every call index of a baseline run x every fault kind x noise mode on the real optimize()",
    "For each configuration the fault-free baseline gives N calls; every k in 0..N-1 x every fault kind (4 exception shapes, NaN, +-inf, complex, ndarray vector, list, tuple, None; "
    "under specified noise also missing/over-long tuple and SD in {0,-1,NaN,inf,None,complex,string,10**400,vector}) is executed; exception type, no further call, func_count == k and a clean log are checked; "
    "all phases (x0, noise test, initial design, search, poll, final re-sampling) must be hit.", "One fault per execution; SD objects None/complex/string/huge int/vector are part of the SD fault kinds.", "DESIGN 4.10")
chk("C16", "fault_enumeration", "E1-faults",
    "exhaustive fault enumeration over GP.fit invocation indices (singles, runs of 2-4, scattered pairs) with the C01/C03/C04/C05 monitors on every faulted run",
    "LinAlgError is raised on entry of GP.fit at every single invocation index, every run of 2-4 consecutive indices and every scattered pair, for det/auto/declared/specified noise x D; "
    "optimize() must complete and keep bounds, budget/count and truthful-result guarantees.", "Fit failure modelled as LinAlgError on entry; >=10 consecutive failures are outside the statement.", "DESIGN 4.16")

chk("C06", "exploration", "E3-panel",
    "exhaustive enumeration of a finite lattice of rotated quadratics (every panel member is run with default options); the statement's own population thresholds are evaluated over the whole lattice",
    "The statement is a population guarantee over a random family, which a bounded exhaustive check cannot decide; what is decided is its restriction to a completely enumerated lattice "
    "(D x eigenvalue profile x rotation x minimiser x start; 72 problems quick / 120 thorough): >= 90% within 1e-3, per-D median evaluations-to-1e-2 <= 40*D, and every single run no worse "
    "than its snapped start (the per-run clause is also checked on every execution of C04's exploration).",
    "No claim outside the lattice; one seed per run derived from VERIF_SEED.", "DESIGN 4.6")
chk("C07", "model_checking", "E2-histories",
    "explicit enumeration of process histories (<= 2 activities from a 12-letter alphabet in two slots), each replayed in a fresh interpreter, against a history-free reference; bit-identical digests",
    "For every problem (det / noisy drawing from the global generator / heavy noise / constrained; x0 given or absent; D=1,2) every history with <= 2 activities before construction and/or between "
    "construction and optimize() is executed in a fresh interpreter and the SHA-256 of all evaluated points, returned values and result fields is compared with the history-free reference "
    "(itself run under two hash seeds); a long-lived interpreter additionally chains cases.",
    "Activity alphabet of 12 (RNG draws, other runs incl. noisy / 1-D narrow / forced double refit, construction only, logging, print options and print formatters, re-used bound arrays, a re-used options dict); histories longer than 2 only through the chained worker.", "DESIGN 4.7")
chk("C08", "model_checking", "E3",
    "exhaustive enumeration of constructor input cells (value lattice^5 for D=1, class products for D=2,3, dimension mismatches, spellings) against an independent 3-valued validator",
    "Every assignment of (x0, lb, plb, pub, ub) from a per-argument lattice (absent, +-inf, NaN, finite values in every relative order, one-ulp neighbours, a decade, a plausible pair inside "
    "the 0.1% margin) is constructed on the real BADS; MUST_REJECT cells must raise ValueError with zero target calls, MUST_ACCEPT cells must be accepted and normalised; spellings "
    "(list/tuple/int/(D,)/(1,D)/scalars) must give identical normalised attributes and, for a fixed sub-family, identical runs.",
    "Don't-care: x0 with NaN/inf, bounds 1-4 ulp apart (either outcome, but an accepted definition must still come out normalised); D<=3.", "DESIGN 4.8")
chk("C11", "model_checking", "E3",
    "exhaustive enumeration of valid bound quadruples on a magnitude lattice (1e-12..1e12, +-inf) x point lattices against an independent reference transform",
    "Every valid quadruple from the lattice x nonlinear_scaling on/off is constructed; log flag, forward map, plausible bounds -> -1/+1, round trip < 1e-9 of the width, monotonicity, clamping of "
    "just-outside inputs (incl. zero/negative ones below a log-scaled bound, which must map to the lower edge), integer-typed bound arrays and vector-vs-matrix input are checked on a point lattice incl. one-ulp neighbours; D=2,3 products of class representatives; the log rule is also checked through BADS(...) with nonlinear_scaling on/off/absent.",
    "Tolerances are conditioning-aware (rounding bound of (p-mu)/gamma) in addition to 1e-12.", "DESIGN 4.11")
chk("C12", "model_checking", "E2",
    "explicit-state breadth-first search over FunctionLogger operation histories with canonical-state deduplication, compared with a list-of-records reference after every operation",
    "call/add operations with record flags over colliding points (sharing 0..D coordinates), cache sizes 1..3 (growth at almost every step), 3 noise levels, 3 transforms, D<=3, reported SDs incl. ones whose squares under/overflow, a target that overwrites its argument in place, "
    "all histories to depth 3 (quick) / 4-5 (thorough); every field of the log compared after every operation, untouched rows included.",
    "Noise level 1 has no pre-evaluated additions in the menu; Y_orig compared on unmerged rows only.", "DESIGN 4.12")
chk("C14", "model_checking", "E3-random+E1",
    "the direction generator is run under an enumerating random source (every outcome of its integer, sign and permutation draws); every poll step of explored runs is recomputed from outside",
    "All outcomes for D<=3 and mesh ratios {<<1,1,2,4}: +/- pairing, integrality, entry bound, exact rational determinant != 0, signed permutation for ratio 1; in runs every polled point "
    "must equal incumbent + mesh*direction (internal coordinates), each direction at most once, at most 2D points, direction entries within the mesh-ratio bound; positive, mixed and negative poll scales.",
    "Upper-triangle draws (discarded by the generator) enumerated fully / over extremes as stated in the evidence.", "DESIGN 4.14")
chk("C15", "model_checking", "E1+E3",
    "every GP fit/update/acquisition call of explored runs is checked through seams against the log; exhaustive enumeration of small-lattice logs for the neighbour selection",
    "Training pairs must be log rows (value exact, noise as SD^2), nearest-k in the length-scaled metric in ascending order, size within configured limits, posterior updates append or refresh "
    "exactly the just-logged evaluation, LCB = mean - sqrt(beta_t)*sd with the documented schedule; E3 over all logs of <= 5 lattice points x incumbents x length scales x size options.",
    "Agreement of k with the radius/buffer rule is not an oracle (the statement only asks for the configured min/max). The size of the very first fit is a recorded known finding.", "DESIGN 4.15")
chk("C17", "model_checking", "E3+E1",
    "exhaustive enumeration of candidate arrays x boxes x tolerances x logs x constraints on small lattices for the real filter; every filter call of explored runs through a seam",
    "All candidate arrays with repetition and order (<=3-4 rows D=1, <=2-3 rows D=2) x box x projection flag x tolerance x logged sets x constraint; four clauses keyed separately "
    "(inside box, feasible, distinct, not already evaluated); call-log multiplicity of deterministic runs. The 'already evaluated' clause is a recorded known finding (pinned by the suite).",
    "Known finding listed in known_findings.json; other clauses still alarm.", "DESIGN 4.17")
chk("C18", "model_checking", "E3+E2+E1",
    "exhaustive (mu,lambda) table for the rank-selection mask; explicit-state BFS over hedge score histories with enumerated uniform draws; ES seams in explored runs",
    "Mask index validity for all mu,lambda <= 64/300 and (mu,2048); hedge probabilities sum to 1 with floor and the chosen index matches the draw over all event histories to depth 4/6 for "
    "three beta values; in runs the proposed point must be the argmin of all acquisition values collected inside the ES call and of the independently recomputed configured LCB, all candidates inside the box rounded to the current search mesh (recomputed) and feasible, "
    "<= 1 target call per search step; both strategies forced through the hedge draw.",
    "All-NaN acquisition values are a don't-care for the argmin clause.", "DESIGN 4.18")
chk("C19", "model_checking", "E1+E2",
    "every recorded iteration of explored runs (all noise modes, noise scripts) compared with the call log; BFS over IterationHistory operation histories against a dict-of-lists reference; copy isolation by mutating every reachable array and re-running",
    "hist.x evaluated, hist.yval observed there, func_count monotone, result.x an iterate (the last one for deterministic), fixed key set readable both ways, unknown keys rejected (item assignment, update, setdefault), "
    "result unchanged by later mutation of the optimiser's arrays and by a second optimize().",
    "What the second optimize() does is not judged.", "DESIGN 4.19")
chk("C20", "model_checking", "E3+E2",
    "every option name overridden alone, all pairs in a core set, D in {1,2,3,7}, each block in a fresh interpreter, against an independent evaluation of the ini defaults; all interleavings of construct/run/poke events of three instances in fresh interpreters",
    "User value identity, dependent defaults (tol_noise, hedge_beta), every other option equal to its ini expression for the problem's own D, unknown names -> ValueError, "
    "no change of another instance's options after any event, every run in every interleaving identical to the same instance run alone (effect of random_seed and of the other options), display='off' silent, a supplied noise_size surviving the run, caller's dict/arrays unchanged after construction and optimize().",
    "Don't-care: three documented normalisations; an instance's own rewrites during its own optimize().", "DESIGN 4.20")

NOT_BUILT = {}

ENGINES = [
    dict(name="E1", path="mc/explore.py, mc/harness.py, mc/monitors.py",
         kind_free_text="stateless deviation-bounded explorer over real BADS.optimize() executions with scripted environment answers and fault injection"),
    dict(name="E2", path="mc/bfs.py", kind_free_text="explicit-state breadth-first search over operation histories of real component objects against reference models"),
    dict(name="E3", path="mc/props/*.py", kind_free_text="exhaustive enumeration of finite input cells / of all outcomes of a randomized function's draws"),
    dict(name="M1", path="models/BadsLoop.tla, mc/tlc.py", kind_free_text="TLA+ controller model checked by TLC; model paths replayed on the code; code traces validated by TLC against Step"),
]


def main():
    props = [json.loads(l) for l in open(os.path.join(V, "properties.jsonl"))]
    hooks_commits = subprocess.run(["git", "-C", "/repo", "log", "--format=%H %s"], capture_output=True, text=True).stdout.splitlines()
    hook = [l.split()[0] for l in hooks_commits if "verif hook" in l]
    checks = []
    na = []
    for p in props:
        pid = p["id"]
        if pid in CHECKS:
            cat, engine, technique, text, note, ref = CHECKS[pid]
            checks.append(dict(
                property_id=pid,
                quick_cmd="./check %s --tier quick" % pid,
                thorough_cmd="./check %s --tier thorough" % pid,
                evidence_file="/verif/evidence/%s.json" % pid,
                replay_cmd_template="./check %s --replay {path}" % pid,
                engine=engine,
                level_claimed=dict(category=cat, text=text, design_ref=ref),
                level_note=note,
                technique=technique,
            ))
        else:
            na.append(dict(property_id=pid, reason=NOT_BUILT.get(pid, "check not built yet in this session (planned in DESIGN.md section 4); not claimed until it exists")))
    for e in ENGINES:
        e["serves_properties"] = [pid for pid, c in CHECKS.items() if e["name"] in c[1]]
    man = dict(
        version=1,
        setup_cmd="./tools/setup.sh",
        hooks=dict(guard="PYBADS_VERIF", enable="checks import /repo directly via PYTHONPATH with PYBADS_VERIF=1 and install BADS._verif_probe; nothing to build",
                   baseline_off_cmd="cd /repo && env -u PYBADS_VERIF /venv/bin/python -m pytest -ra -q -p no:cacheprovider --timeout=900 --continue-on-collection-errors",
                   source_commits=hook, add_only=True),
        engines=ENGINES,
        checks=checks,
        not_applicable=na,
        notes="All checks run the real code in /repo's working tree (PYTHONPATH=/repo); see DESIGN.md. Exit 2 + HARNESS-ERROR means the machinery itself failed (never a violation claim).",
    )
    import jsonschema

    jsonschema.validate(man, json.load(open("/root/.vp/MANIFEST.schema.json")))
    with open(os.path.join(V, "MANIFEST.json"), "w") as f:
        json.dump(man, f, indent=1)
        f.write("\n")
    print("MANIFEST.json: %d checks, %d not_applicable" % (len(checks), len(na)))


if __name__ == "__main__":
    main()
