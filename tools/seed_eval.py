#!/venv/bin/python
"""Run checks against seeded property-breaking changes.
usage: seed_eval.py <seed-id> [check ids...]   (default: the property the seed breaks)
Applies seeded/<id>/patch.diff to /repo, runs ./check <C> --tier quick with evidence/replays redirected to a
scratch directory, records exit status and VIOLATION lines in seeded/<id>/results.json, and always reverts /repo."""
import json
import os
import shutil
import subprocess
import sys
import tempfile
import time

V = os.path.dirname(os.path.dirname(os.path.abspath(__file__)))
REPO = os.environ.get("PYBADS_REPO", "/repo")


def main():
    sid = sys.argv[1]
    d = os.path.join(V, "seeded", sid)
    meta = json.load(open(os.path.join(d, "meta.json")))
    checks = sys.argv[2:] or [meta["property"]]
    st = subprocess.run(["git", "-C", REPO, "status", "--porcelain"], capture_output=True, text=True).stdout.strip()
    if st:
        sys.exit("%s is not clean: %s" % (REPO, st))
    tier = os.environ.get("SEED_TIER", "quick")
    res_path = os.path.join(os.environ.get("SEED_RESULTS_DIR") or d, "results.json" if not os.environ.get("SEED_RESULTS_DIR") else "%s.json" % sid)
    results = json.load(open(res_path)) if os.path.exists(res_path) else {}
    subprocess.run(["git", "-C", REPO, "apply", os.path.join(d, "patch.diff")], check=True)
    tmp = tempfile.mkdtemp(prefix="seed_", dir="/tmp")
    try:
        for c in checks:
            env = dict(os.environ, VERIF_EVIDENCE_DIR=os.path.join(tmp, "ev"), VERIF_REPLAY_DIR=os.path.join(tmp, "rp"))
            t = time.time()
            p = subprocess.run([os.path.join(V, "check"), c, "--tier", tier], capture_output=True, text=True, env=env, cwd=V)
            lines = [l for l in p.stdout.splitlines() if l.startswith(("VIOLATION", "  clause", "HARNESS-ERROR", "KNOWN-FINDING"))]
            results["%s/%s" % (c, tier)] = dict(exit=p.returncode, wall_s=round(time.time() - t, 1), lines=lines[:12], head=subprocess.run(
                ["git", "-C", REPO, "rev-parse", "--short", "HEAD"], capture_output=True, text=True).stdout.strip())
            print(sid, c, tier, "exit", p.returncode, "|", (lines[1] if len(lines) > 1 else (lines[0] if lines else ""))[:160])
    finally:
        subprocess.run(["git", "-C", REPO, "checkout", "--", "."], check=True)
        shutil.rmtree(tmp, ignore_errors=True)
    json.dump(results, open(res_path, "w"), indent=1, sort_keys=True)


if __name__ == "__main__":
    main()
