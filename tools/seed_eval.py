#!/venv/bin/python
"""Run checks against seeded property-breaking changes.
usage: seed_eval.py <seed-id> [check ids...]   (default: the property the seed breaks)
Applies seeded/<id>/patch.diff to /repo, runs ./check <C> --tier quick with evidence/replays redirected to a
scratch directory, records exit status and VIOLATION lines in seeded/<id>/results.json, and always reverts /repo."""
import json
import os
import shutil
import subprocess
import sys
import tempfile
import time

V = os.path.dirname(os.path.dirname(os.path.abspath(__file__)))
REPO = os.environ.get("PYBADS_REPO", "/repo")


def main():
    sid = sys.argv[1]
    d = os.path.join(V, "seeded", sid)
    meta = json.load(open(os.path.join(d, "meta.json")))
    checks = sys.argv[2:] or [meta["property"]]
    st = subprocess.run(["git", "-C", REPO, "status", "--porcelain"], capture_output=True, text=True).stdout.strip()
    if st:
        sys.exit("%s is not clean: %s" % (REPO, st))
    tier = os.environ.get("SEED_TIER", "quick")
    res_path = os.path.join(os.environ.get("SEED_RESULTS_DIR") or d, "results.json" if not os.environ.get("SEED_RESULTS_DIR") else "%s.json" % sid)
    results = json.load(open(res_path)) if os.path.exists(res_path) else {}
    subprocess.run(["git", "-C", REPO, "apply", os.path.join(d, "patch.diff")], check=True)
    tmp = tempfile.mkdtemp(prefix="seed_", dir="/tmp")
    try:
        for c in checks:
            env = dict(os.environ, VERIF_EVIDENCE_DIR=os.path.join(tmp, "ev"), VERIF_REPLAY_DIR=os.path.join(tmp, "rp"))
            t = time.time()
            p = subprocess.run([os.path.join(V, "check"), c, "--tier", tier], capture_output=True, text=True, env=env, cwd=V)
            lines = [l for l in p.stdout.splitlines() if l.startswith(("VIOLATION", "  clause", "HARNESS-ERROR", "KNOWN-FINDING"))]
            results["%s/%s" % (c, tier)] = dict(exit=p.returncode, wall_s=round(time.time() - t, 1), lines=lines[:12], head=subprocess.run(
                ["git", "-C", REPO, "rev-parse", "--short", "HEAD"], capture_output=True, text=True).stdout.strip())
            # keep one replay artefact per check and confirm that `./check <id> --replay` reproduces it on the mutated tree
            rp = sorted(f for f in (os.listdir(env["VERIF_REPLAY_DIR"]) if os.path.isdir(env["VERIF_REPLAY_DIR"]) else []) if f.startswith(c + "-"))
            if p.returncode == 1 and rp:
                keep = os.path.join(d, "replays")
                os.makedirs(keep, exist_ok=True)
                for old_f in os.listdir(keep):
                    if old_f.startswith(c + "-"):
                        os.remove(os.path.join(keep, old_f))
                shutil.copy(os.path.join(env["VERIF_REPLAY_DIR"], rp[0]), os.path.join(keep, rp[0]))
                q = subprocess.run([os.path.join(V, "check"), c, "--replay", os.path.join(keep, rp[0])], capture_output=True, text=True, env=env, cwd=V)
                results["%s/%s" % (c, tier)]["replay_file"] = "replays/" + rp[0]
                results["%s/%s" % (c, tier)]["replay_reproduces_on_mutant"] = (q.returncode == 1)
            print(sid, c, tier, "exit", p.returncode, "|", (lines[1] if len(lines) > 1 else (lines[0] if lines else ""))[:160])
    finally:
        subprocess.run(["git", "-C", REPO, "checkout", "--", "."], check=True)
        shutil.rmtree(tmp, ignore_errors=True)
    json.dump(results, open(res_path, "w"), indent=1, sort_keys=True)


if __name__ == "__main__":
    main()
