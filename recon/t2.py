import time, numpy as np, warnings
warnings.filterwarnings("ignore")
from pybads import BADS
import logging
def adv_run(D, script, opts, default='F'):
    st={'best':None,'calls':[], 'k':0}
    def f(x):
        k=st['k']; st['k']+=1
        x=np.array(x,dtype=float).copy()
        if st['best'] is None:
            v=100.0
        elif k==1:  # noise test repeat
            v=st['calls'][0][1]
        else:
            a=script.get(k,default)
            v={'S':st['best']-2.0,'I':st['best']-1e-9,'F':st['best']+1.0,'E':st['best']}[a]
        st['calls'].append((x,v))
        st['best']=v if st['best'] is None else min(st['best'],v)
        return v
    o={"display":"off","random_seed":1}; o.update(opts)
    kw=dict(x0=np.full((1,D),1.0), lower_bounds=np.full(D,-5.), upper_bounds=np.full(D,5.), plausible_lower_bounds=np.full(D,-2.), plausible_upper_bounds=np.full(D,2.))
    t=time.time()
    b=BADS(f, **kw, options=o); r=b.optimize()
    return time.time()-t, r, b, st
for D in (1,2):
  for default in 'FIS':
    for opts in ({}, {"tol_mesh":2**-4}):
        try:
            dt,r,b,st=adv_run(D,{},opts,default)
            print(D,default,opts,round(dt,2),r.func_count,len(st['calls']),r.iterations,r.mesh_size,r.message[-40:], r.fval==st['best'])
        except Exception as e:
            import traceback; traceback.print_exc()
