import numpy as np, warnings, traceback
warnings.filterwarnings("ignore")
from pybads import BADS
from pybads.function_logger import FunctionLogger
f=lambda x: float(np.sum(np.atleast_1d(x)**2))
def tryb(label, **kw):
    try:
        b=BADS(f, options={"display":"off"}, **kw); print(label,'OK', b.x0, b.var_transf.apply_log_t if hasattr(b,'var_transf') else None)
        return b
    except Exception as e:
        print(label, type(e).__name__, str(e)[:100].replace('\n',' '))
print('--- C08 mixed bounded/unbounded')
tryb('mixed', x0=np.array([[0.5,0.5]]), lower_bounds=np.array([[0,-np.inf]]), upper_bounds=np.array([[1,np.inf]]), plausible_lower_bounds=np.array([[0.1,-1]]), plausible_upper_bounds=np.array([[0.9,1]]))
print('--- C08 list plb, x0 None')
tryb('listplb', plausible_lower_bounds=[-1,-1], plausible_upper_bounds=[1,1])
tryb('listlb', lower_bounds=[-1,-1], upper_bounds=[1,1])
tryb('tuple x0', x0=(0.,0.), lower_bounds=(-1,-1), upper_bounds=(1,1))
print('--- C08 int log')
b1=tryb('intlog', x0=np.array([[5,5]]), lower_bounds=np.array([[1,1]]), upper_bounds=np.array([[1000,1000]]), plausible_lower_bounds=np.array([[2,2]]), plausible_upper_bounds=np.array([[500,500]]))
b2=tryb('floatlog', x0=np.array([[5.,5.]]), lower_bounds=np.array([[1.,1.]]), upper_bounds=np.array([[1000.,1000.]]), plausible_lower_bounds=np.array([[2.,2.]]), plausible_upper_bounds=np.array([[500.,500.]]))
if b1 and b2: print(b1.lower_bounds,b2.lower_bounds,b1.u,b2.u, b1.plausible_lower_bounds, b2.plausible_lower_bounds)
print('--- C08 scalar')
tryb('scalar', x0=3, plausible_lower_bounds=-5, plausible_upper_bounds=5)
tryb('scalar2', x0=3, lower_bounds=-10, upper_bounds=10)
tryb('nox0 1D arrays', lower_bounds=np.array([-10.,-10]), upper_bounds=np.array([10.,10]))
print('--- C11 wide range')
tryb('wide', x0=np.array([[0.]]), lower_bounds=np.array([[-1e12]]), upper_bounds=np.array([[1e12]]))
tryb('widelog', x0=np.array([[1.]]), lower_bounds=np.array([[1e-12]]), upper_bounds=np.array([[1e12]]), plausible_lower_bounds=np.array([[1e-6]]), plausible_upper_bounds=np.array([[1e6]]))
print('--- C12 partial coincidence')
fl=FunctionLogger(lambda x:(float(np.sum(x)),1.0), 2, True, 2, cache_size=4)
fl(np.array([0.,1.])); fl(np.array([2.,3.])); fl(np.array([2.,5.])); print(fl.Y[:4].T, fl.S[:4].T, fl.n_evals[:4].T)
try:
    fl(np.array([2.,5.])); print('after repeat', fl.Y[:4].T, fl.S[:4].T, fl.n_evals[:4].T, fl.Xn)
except Exception as e: traceback.print_exc()
