import numpy as np, warnings, traceback, collections, sys
warnings.filterwarnings("ignore")
import pybads.bads.bads as bb
import pybads.bads.gaussian_process_train as gpt
from pybads import BADS
import gpyreg
D=2
kw=dict(x0=np.full((1,D),1.0), lower_bounds=np.full(D,-5.), upper_bounds=np.full(D,5.), plausible_lower_bounds=np.full(D,-2.), plausible_upper_bounds=np.full(D,2.))
GP=gpyreg.GP
orig_fit=GP.fit
def run_fault(fault_idx, noisy):
    cnt={'k':0}
    def fit(self,*a,**k):
        i=cnt['k']; cnt['k']+=1
        if i in fault_idx: raise np.linalg.LinAlgError("injected")
        return orig_fit(self,*a,**k)
    GP.fit=fit
    try:
        if noisy:
            def fn(x):
                y=float(np.sum(np.atleast_1d(x)**2)); return y+np.random.randn(), 1.0
            o={"display":"off","random_seed":3,"max_fun_evals":60,"specify_target_noise":True,"uncertainty_handling":True}
        else:
            fn=lambda x: float(np.sum(np.atleast_1d(x)**2)); o={"display":"off","random_seed":3,"max_fun_evals":40}
        b=BADS(fn,options=o,**kw); r=b.optimize()
        return 'OK fits=%d'%cnt['k']
    except Exception as e:
        tb=traceback.extract_tb(sys.exc_info()[2])
        fr=[t for t in tb if 'pybads' in t.filename][-1]
        return '%s: %s @ %s:%d'%(type(e).__name__, str(e)[:80], fr.filename.split('/')[-1], fr.lineno)
    finally: GP.fit=orig_fit
for noisy in (False,True):
    for fi in ([0],[1],[1,2],[1,2,3],[2,3,4,5],[0,1],[3,5]):
        print(noisy, fi, run_fault(set(fi),noisy))
