------------------------------ MODULE BadsLoop ------------------------------
(* Control skeleton of BADS.optimize(): one step = one iteration of the      *)
(* `while not is_finished` loop (bads.py l.1182-1426, poll l.1887-2265).    *)
EXTENDS Integers, Sequences, FiniteSets, TLC
CONSTANTS D, NTry, N0, NP0, MaxFE, MaxIter, TolK, Cap, TSI, AccSteps, KeepLab,
          Accel, CompletePoll, Free
VARIABLES st, lab
vars == <<st, lab>>

Min(a, b) == IF a < b THEN a ELSE b
SA == {"none", "E", "F", "I", "S"}
Labels == [sa : SA, n : 0..(2*D), nS : 0..(2*D), good : BOOLEAN, stall : BOOLEAN]
NoLabel == [sa |-> "none", n |-> 0, nS |-> 0, good |-> FALSE, stall |-> FALSE]

InitState == [sc |-> NTry, ss |-> 0, k |-> 0, fc |-> N0, np |-> NP0, pit |-> 0,
              polls |-> 0, lvl |-> 0, hist |-> <<>>, fin |-> FALSE, msg |-> ""]

HistAt(h, i) == h[i + 1]

\* all intermediate quantities of one loop iteration, as a record
Calc(s, l) ==
  LET doSearch == (s.sc < NTry) /\ (s.np > D)
      evalS    == doSearch /\ l.sa # "E"
      sc1  == IF doSearch THEN s.sc + 1 ELSE s.sc
      fc1  == IF evalS THEN s.fc + 1 ELSE s.fc
      np1  == IF evalS THEN s.np + 1 ELSE s.np
      ss1  == IF doSearch /\ l.sa = "S" THEN s.ss + 1 ELSE s.ss
      lvl1 == IF doSearch /\ l.sa = "S" THEN s.lvl + 1 ELSE s.lvl
      stage  == (sc1 = 0) \/ (sc1 = NTry)
      doPoll == stage /\ ~(ss1 > 0)
      sc2  == IF stage THEN 0 ELSE sc1
      ss2  == IF stage THEN 0 ELSE ss1
      room == IF MaxFE > fc1 THEN MaxFE - fc1 ELSE 0
      nmax == Min(2*D, room)
      good == IF Free THEN (doPoll /\ l.good) ELSE (doPoll /\ l.nS > 0)
      lvl2 == IF Free \/ ~doPoll THEN lvl1 ELSE lvl1 + l.nS
      fc2  == fc1 + (IF doPoll THEN l.n ELSE 0)
      np2  == np1 + (IF doPoll THEN l.n ELSE 0)
      stalled == IF Free THEN l.stall
                 ELSE (s.pit > AccSteps /\ HistAt(s.hist, s.pit - AccSteps) = lvl2)
      k2 == IF ~doPoll THEN s.k
            ELSE IF good THEN Min(s.k + 1, Cap)
            ELSE IF Accel /\ s.pit > AccSteps /\ stalled THEN s.k - 2
            ELSE s.k - 1
      cFE   == fc2 >= MaxFE
      cIT   == s.pit >= MaxIter - 1
      cMESH == k2 < -TolK
      cFUN  == IF Free THEN (s.pit > TSI - 1 /\ l.stall)
               ELSE (s.pit > TSI - 1 /\ HistAt(s.hist, s.pit - TSI) = lvl2)
      fin2  == cFE \/ cIT \/ cMESH \/ cFUN
      msg2  == IF cFUN THEN "fun" ELSE IF cMESH THEN "mesh" ELSE IF cIT THEN "it"
               ELSE IF cFE THEN "fe" ELSE ""
      rec   == doPoll \/ fin2
      hist2 == IF Free THEN <<>>
               ELSE IF rec /\ Len(s.hist) = s.pit THEN Append(s.hist, lvl2)
               ELSE IF rec THEN [s.hist EXCEPT ![s.pit + 1] = lvl2] ELSE s.hist
      pit2  == IF doPoll /\ ~fin2 THEN s.pit + 1 ELSE s.pit
  IN [doSearch |-> doSearch, doPoll |-> doPoll, nmax |-> nmax,
      nxt |-> [sc |-> sc2, ss |-> ss2, k |-> k2, fc |-> fc2, np |-> np2, pit |-> pit2,
               polls |-> s.polls + (IF doPoll THEN 1 ELSE 0), lvl |-> lvl2,
               hist |-> hist2, fin |-> fin2, msg |-> msg2]]

Enabled(s, l) ==
  LET c == Calc(s, l) IN
  /\ ~s.fin
  /\ (c.doSearch => l.sa # "none") /\ (~c.doSearch => l.sa = "none")
  /\ (c.doPoll => /\ l.n <= c.nmax /\ l.nS <= l.n
                  /\ ((CompletePoll /\ ~Free) => l.n = c.nmax))
  /\ (~c.doPoll => l.n = 0 /\ l.nS = 0 /\ l.good = FALSE)
  /\ (~Free => l.good = (c.doPoll /\ l.nS > 0) /\ l.stall = FALSE)
  /\ (Free => l.nS = 0)

Step(s, l, t) == Enabled(s, l) /\ t = Calc(s, l).nxt

Init == st = InitState /\ lab = NoLabel
Next == \E l \in Labels : Enabled(st, l) /\ st' = Calc(st, l).nxt /\ lab' = (IF KeepLab THEN l ELSE NoLabel)
Spec == Init /\ [][Next]_vars /\ WF_vars(Next)

\* ---- properties -------------------------------------------------------------
Budget   == st.fc <= MaxFE
Iters    == st.polls <= MaxIter
MeshCap  == st.k <= Cap
SearchLE == Min(0, 2 * st.k - 10) <= st.k
MsgTrue  == st.fin =>
              \/ st.msg = "fe"   /\ st.fc >= MaxFE
              \/ st.msg = "it"   /\ st.pit >= MaxIter - 1
              \/ st.msg = "mesh" /\ st.k < -TolK
              \/ st.msg = "fun"  /\ st.pit > TSI - 1
Terminates == <>(st.fin)
=============================================================================
