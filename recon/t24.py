import numpy as np, warnings, sys, collections, time, logging
warnings.filterwarnings("ignore"); logging.disable(logging.CRITICAL)
from multiprocessing import Pool
def execute(job):
    D,geo,script,opts=job
    import pybads.bads.bads as bb
    from pybads import BADS
    if geo=='lin': lb,ub,plb,pub,x0=-5.,5.,-2.,2.,1.0
    elif geo=='log': lb,ub,plb,pub,x0=1e-3,1e3,1e-2,1e2,5.0
    else: lb,ub,plb,pub,x0=-np.inf,np.inf,-2.,2.,1.0
    st={'m':None,'k':0,'seen':{},'calls':[]}
    def f(x):
        x=np.asarray(x,float).copy(); key=x.tobytes(); k=st['k']; st['k']+=1
        if st['m'] is None: v=100.0
        elif key in st['seen']: v=st['seen'][key]
        else:
            a=script.get(k,'F'); v={'S':st['m']-2.0,'I':st['m']-1e-9,'F':st['m']+1.0,'E':st['m']}[a]
        st['seen'].setdefault(key,v); st['calls'].append((x,v)); st['m']=v if st['m'] is None else min(st['m'],v)
        return v
    polls=[]
    op=bb.BADS._poll_step_
    def ps(self,gp):
        pre=(int(self.mesh_size_integer), self.fval, st['k'], self.optim_state['iter'], self.mesh_size)
        r=op(self,gp); polls.append(pre+(int(self.mesh_size_integer), st['k'])); return r
    bb.BADS._poll_step_=ps
    viol=[]
    try:
        o={"display":"off","random_seed":1}; o.update(opts)
        b=BADS(f,x0=np.full((1,D),x0),lower_bounds=np.full(D,lb),upper_bounds=np.full(D,ub),plausible_lower_bounds=np.full(D,plb),plausible_upper_bounds=np.full(D,pub),options=o)
        r=b.optimize()
    except Exception as e:
        return (job, st['k'], ['EXC %s %s'%(type(e).__name__,str(e)[:60])])
    finally: bb.BADS._poll_step_=op
    calls=st['calls']
    # C01
    for x,v in calls:
        if np.any(x<lb) or np.any(x>ub): viol.append('C01 call outside')
    # C03
    if r.func_count!=len(calls): viol.append('C03 count')
    # C04
    xs=[c[0] for c in calls]; vs=[c[1] for c in calls]
    idx=[i for i,x in enumerate(xs) if np.array_equal(x,np.ravel(r.x))]
    if not idx: viol.append('C04 x not evaluated')
    elif r.fval not in [vs[i] for i in idx]: viol.append('C04 fval not value at x')
    if min(vs)<r.fval: viol.append('C04 better point discarded %g<%g'%(min(vs),r.fval))
    if r.fsd!=0 or r.target_type!='deterministic': viol.append('C04 fsd/type')
    fh=[v for v in b.iteration_history['fval'] if v is not None]
    if any(fh[i+1]>fh[i] for i in range(len(fh)-1)): viol.append('C04 hist increases')
    # C13
    tf=b.options['tol_fun']; H=b.iteration_history['fval']
    for (k0,f0,c0,it,mesh,k1,c1) in polls:
        ys=vs[c0:c1]; suff=max(mesh**1.5,tf)
        good=bool(ys) and (f0-min(ys))>suff
        fnow=min([f0]+ys) if ys and (f0-min(ys))>0 else f0
        if good: exp=min(k0+1,0)
        else:
            exp=k0-1
            if b.options['accelerate_mesh'] and it>3 and H[it-3]-fnow<tf: exp=k0-2
        if k1!=exp: viol.append('C13 k %d->%d expected %d (it %d good %s)'%(k0,k1,exp,it,good))
    # C17 multiplicity
    c=collections.Counter(x.tobytes() for x in xs); 
    rep=sum(v-1 for v in c.values())
    return (job, len(calls), viol, rep, len(polls))
if __name__=='__main__':
    t=time.time()
    base=[]
    for D in (1,2):
        for geo in ('lin','log','unb'):
            for opts in ({"tol_mesh":2**-4},{"tol_mesh":2**-4,"complete_poll":True}):
                base.append((D,geo,{},opts))
    with Pool(16) as p:
        r0=p.map(execute,base)
        jobs=[]
        for (job,n,viol,*_) in r0:
            D,geo,_,opts=job
            for k in range(2,n+3):
                for a in 'ISE': jobs.append((D,geo,{k:a},opts))
        r1=p.map(execute,jobs,chunksize=8)
    allr=r0+r1
    print('executions',len(allr),'time',round(time.time()-t,1))
    cnt=collections.Counter(v.split(' (')[0] if v.startswith('C13') else v for r in allr for v in r[2])
    for k,v in cnt.most_common(12): print(v,k)
    print('runs with repeats',sum(1 for r in allr if len(r)>3 and r[3]>1), 'max calls',max(r[1] for r in allr))
    ex=[r for r in allr if r[2]][:5]
    for e in ex: print(e)
