import numpy as np, warnings, traceback, sys, itertools, collections, os
warnings.filterwarnings("ignore")
from multiprocessing import Pool
def job(a):
    D,mode,cons,geo,land,seed,mfe=a
    import logging; logging.disable(logging.CRITICAL)
    from pybads import BADS
    if geo=='lin': lb,ub,plb,pub,x0=-5.,5.,-2.,2.,1.0
    elif geo=='log': lb,ub,plb,pub,x0=1e-3,1e3,1e-2,1e2,5.0
    else: lb,ub,plb,pub,x0=-np.inf,np.inf,-2.,2.,1.0
    tgt={'in':0.3,'corner':ub if np.isfinite(ub) else 50.,'out':(ub*3 if np.isfinite(ub) else 100.)}[land]
    def val(x):
        x=np.asarray(x,float).ravel()
        z=np.log10(x) if geo=='log' else x
        t=np.log10(tgt) if geo=='log' else tgt
        return float(np.sum((z-t)**2))
    def fn(x):
        y=val(x)
        if mode=='det': return y
        s=1.0+0.1*np.sqrt(abs(y)); v=y+s*np.random.randn()
        return (v,s) if mode=='spec' else v
    c=None
    if cons=='half': c=(lambda X: np.sum(np.atleast_2d(X),1) > (3.0*D if geo!='log' else 200.0*D))
    if cons=='ball': c=(lambda X: np.sum((np.atleast_2d(X)-x0)**2,1) > (9.0 if geo!='log' else 1e4))
    o={"display":"off","random_seed":seed,"max_fun_evals":mfe,"noise_final_samples":3}
    if mode in('decl','spec'): o["uncertainty_handling"]=True
    if mode=='spec': o["specify_target_noise"]=True
    kw=dict(x0=np.full((1,D),x0), lower_bounds=np.full(D,lb), upper_bounds=np.full(D,ub), plausible_lower_bounds=np.full(D,plb), plausible_upper_bounds=np.full(D,pub), non_box_cons=c)
    try:
        r=BADS(fn,options=o,**kw).optimize(); return (a,'OK')
    except Exception as e:
        tb=traceback.extract_tb(sys.exc_info()[2]); fr=[t for t in tb if 'pybads' in t.filename][-1]
        return (a,'%s@%s:%s:%d | %s'%(type(e).__name__,fr.filename.split('/')[-1],fr.name,fr.lineno,str(e)[:60].replace('\n',' ')))
if __name__=='__main__':
    jobs=[(D,m,c,g,l,s,mfe) for D in (1,2,3) for m in ('det','auto','decl','spec') for c in (None,'half','ball') for g in ('lin','log','unb') for l in ('in','corner','out') for s in (1,2) for mfe in (80,)]
    with Pool(16) as p: res=p.map(job,jobs,chunksize=4)
    cnt=collections.Counter(r[1] for r in res)
    for k,v in cnt.most_common(): print(v,k)
    by=collections.defaultdict(list)
    for a,r in res:
        if r!='OK': by[r.split('|')[0]].append(a)
    for k,v in by.items(): print(k, len(v), v[:5])
