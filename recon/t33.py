import numpy as np, warnings, collections, time, logging
warnings.filterwarnings("ignore"); logging.disable(logging.CRITICAL)
from multiprocessing import Pool
class Boom(KeyError): pass
def execute(job):
    D,mode,k_fault,kind=job
    from pybads import BADS
    st={'k':0}
    def f(x):
        k=st['k']; st['k']+=1
        y=float(np.sum((np.asarray(x)-0.3)**2)); s=1.0+0.1*np.sqrt(y)
        v=y if mode=='det' else y+0.5*s*(1 if k%2==0 else -1)
        if k==k_fault:
            if kind=='raise': raise Boom('x')
            bad={'nan':np.nan,'inf':np.inf,'cplx':1+2j,'vec':np.array([1.,2.]),'none':None}.get(kind)
            if kind in('sd0','sdneg','sdnan'): return (v,{'sd0':0.0,'sdneg':-1.0,'sdnan':np.nan}[kind])
            if kind=='notuple': return v
            if kind=='tuple3': return (v,s,s)
            return (bad,s) if mode=='spec' else bad
        return (v,s) if mode=='spec' else v
    o={"display":"off","random_seed":2,"max_fun_evals":60,"noise_final_samples":3}
    if mode in('decl','spec'): o["uncertainty_handling"]=True
    if mode=='spec': o["specify_target_noise"]=True
    b=None
    try:
        b=BADS(f,x0=np.full((1,D),1.0),lower_bounds=np.full(D,-5.),upper_bounds=np.full(D,5.),plausible_lower_bounds=np.full(D,-2.),plausible_upper_bounds=np.full(D,2.),options=o)
        r=b.optimize(); out='RETURNED'
    except Exception as e: out=type(e).__name__
    fl=b.function_logger
    viol=[]
    if k_fault is None: return job,st['k'],[]
    exp='Boom' if kind=='raise' else 'ValueError'
    if out!=exp: viol.append('exception %s expected %s'%(out,exp))
    if st['k']!=k_fault+1: viol.append('calls after fault %d vs %d'%(st['k'],k_fault+1))
    if fl.func_count!=k_fault: viol.append('func_count %d vs %d'%(fl.func_count,k_fault))
    n=fl.Xn+1
    if n>k_fault or not np.all(np.isfinite(fl.Y[:n])): viol.append('log dirty')
    return job,st['k'],viol
if __name__=='__main__':
    t=time.time()
    with Pool(16) as p:
        base=[(D,m,None,None) for D in (1,2) for m in ('det','decl','spec')]
        r0=p.map(execute,base)
        jobs=[]
        for (job,n,_) in r0:
            D,m,_,_=job
            kinds=['raise','nan','inf','cplx','vec','none']+(['sd0','sdneg','sdnan','notuple','tuple3'] if m=='spec' else [])
            jobs+=[(D,m,k,kd) for k in range(n) for kd in kinds]
        r1=p.map(execute,jobs,chunksize=8)
    print('baseline lens',[(r[0][:2],r[1]) for r in r0],'faulted runs',len(r1),'time',round(time.time()-t,1))
    c=collections.Counter((r[0][1],r[0][3],v.split(' ')[0]+' '+v.split(' ')[1]) for r in r1 for v in r[2])
    for k,v in c.most_common(15): print(v,k)
    ex=[r for r in r1 if r[2]][:4]
    for e in ex: print(e)
