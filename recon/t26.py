import numpy as np, warnings, sys, collections, time, logging
warnings.filterwarnings("ignore"); logging.disable(logging.CRITICAL)
from multiprocessing import Pool
def execute(job):
    D,mode,nfs,mfe,script=job
    from pybads import BADS
    st={'k':0,'calls':[]}
    def f(x):
        x=np.asarray(x,float).copy(); k=st['k']; st['k']+=1
        y=float(np.sum((x-0.3)**2)); s=1.0+0.1*np.sqrt(y)
        c={'alt':(1.0 if k%2==0 else -1.0),'LOW':-5.0,'HIGH':5.0}[script.get(k,'alt')]
        v=y+0.5*s*c
        st['calls'].append((x,v,s))
        return (v,s) if mode=='spec' else v
    o={"display":"off","random_seed":2,"max_fun_evals":mfe,"noise_final_samples":nfs}
    if mode in('decl','spec'): o["uncertainty_handling"]=True
    if mode=='spec': o["specify_target_noise"]=True
    viol=[]
    try:
        b=BADS(f,x0=np.full((1,D),1.0),lower_bounds=np.full(D,-5.),upper_bounds=np.full(D,5.),plausible_lower_bounds=np.full(D,-2.),plausible_upper_bounds=np.full(D,2.),options=o)
        r=b.optimize()
    except Exception as e:
        import traceback; tb=traceback.extract_tb(sys.exc_info()[2]); fr=[t for t in tb if 'pybads' in t.filename][-1]
        return (job, st['k'], ['EXC %s@%s:%d %s'%(type(e).__name__,fr.name,fr.lineno,str(e)[:40])])
    calls=st['calls']; n=len(calls); xs=[c[0] for c in calls]
    rx=np.ravel(r.x)
    if r.func_count!=n: viol.append('C03 count')
    if n>mfe: viol.append('C03 budget %d>%d'%(n,mfe))
    if r.target_type=='deterministic': viol.append('C05 type')
    if not any(np.array_equal(x,rx) for x in xs[:n-nfs]): viol.append('C05 x not evaluated earlier')
    if nfs>0:
        if not all(np.array_equal(x,rx) for x in xs[n-nfs:]): viol.append('C05 tail not at x')
        yv=np.ravel(r.yval_vec)
        if not np.array_equal(yv[:nfs],[c[1] for c in calls[n-nfs:]]): viol.append('C05 yval_vec')
        if nfs==1:
            obs=[c[1] for c in calls[:n-1] if np.array_equal(c[0],rx)]
            if len(yv)!=2 or not (min(obs)-1e-12<=yv[1]<=max(obs)+1e-12): viol.append('C05 nfs1 supplement')
        if not np.isclose(r.fval,np.mean(yv),rtol=1e-12,atol=0): viol.append('C05 fval')
        se=[np.std(yv,ddof=d)/np.sqrt(len(yv)) for d in (0,1)]
        if not any(np.isclose(r.fsd,s_,rtol=1e-12) for s_ in se): viol.append('C05 fsd')
        if mode=='spec':
            sv=np.ravel(r.ysd_vec)
            if not np.array_equal(sv[:nfs],[c[2] for c in calls[n-nfs:]]): viol.append('C05 ysd_vec tail')
            if nfs==1:
                sd_at=[c[2] for c in calls[:n-1] if np.array_equal(c[0],rx)]
                if len(sv)!=2 or sv[1] not in sd_at: viol.append('C05 ysd_vec supplement')
    else:
        if r.yval_vec is not None: viol.append('C05 yval_vec not None')
    # C19
    H=b.iteration_history
    for i in range(len(H['x'])):
        if H['x'][i] is None: continue
        xi=np.ravel(H['x'][i]); obs=[c[1] for c in calls if np.array_equal(c[0],xi)]
        if not obs: viol.append('C19 hist x not evaluated'); continue
        yv_=float(H['yval'][i])
        ok = (yv_ in obs) if mode!='spec' else (min(obs)-1e-12<=yv_<=max(obs)+1e-12)
        if not ok: viol.append('C19 hist yval not observed at x')
    if not any(H['x'][i] is not None and np.array_equal(np.ravel(H['x'][i]),rx) for i in range(len(H['x']))): viol.append('C19 result x not an iterate')
    fc=[v for v in H['func_count'] if v is not None]
    if any(fc[i+1]<fc[i] for i in range(len(fc)-1)) or (fc and fc[-1]>r.func_count): viol.append('C19 func_count')
    return (job, n, viol)
if __name__=='__main__':
    t=time.time()
    base=[(D,mode,nfs,mfe,{}) for D in (1,2) for mode in ('auto','decl','spec') for nfs in (0,1,3) for mfe in (60,)]
    with Pool(16) as p:
        r0=p.map(execute,base)
        jobs=[]
        for (job,n,viol) in r0:
            D,mode,nfs,mfe,_=job
            for k in range(0,n,1):
                for a in ('LOW','HIGH'): jobs.append((D,mode,nfs,mfe,{k:a}))
        r1=p.map(execute,jobs,chunksize=8)
    allr=r0+r1
    print('executions',len(allr),'time',round(time.time()-t,1))
    cnt=collections.Counter((r[0][1],v) for r in allr for v in set(r[2]))
    for k,v in sorted(cnt.items(), key=lambda kv:-kv[1])[:20]: print(v,k)
    for v_ in ('C19 hist yval not observed at x','C05 x not evaluated earlier','C19 result x not an iterate'):
        ex=[r for r in allr if v_ in r[2]][:2]
        for e in ex: print(e)
