import numpy as np, warnings, traceback, sys
warnings.filterwarnings("ignore")
from pybads import BADS
import pybads.bads.bads as bb
def go(D, mfe, noisy, nfs=10, extra=None):
    n={'c':0,'init':None}
    def fn(x):
        n['c']+=1
        y=float(np.sum(np.asarray(x)**2)); return y+np.random.randn() if noisy else y
    kw=dict(x0=np.full((1,D),1.0), lower_bounds=np.full(D,-5.), upper_bounds=np.full(D,5.), plausible_lower_bounds=np.full(D,-2.), plausible_upper_bounds=np.full(D,2.))
    o={"display":"off","random_seed":4,"max_fun_evals":mfe,"noise_final_samples":nfs}
    if noisy=='decl': o["uncertainty_handling"]=True
    if extra: o.update(extra)
    orig=bb.BADS._init_mesh_
    def im(self):
        r=orig(self); n['init']=n['c']; return r
    bb.BADS._init_mesh_=im
    try:
        b=BADS(fn,options=o,**kw); r=b.optimize()
        return (n['init'], n['c'], r.func_count, r.iterations, r.message[-28:])
    except Exception as e:
        tb=traceback.extract_tb(sys.exc_info()[2]); fr=[t for t in tb if 'pybads' in t.filename][-1]
        return (n['init'], n['c'], '%s:%s@%s:%d'%(type(e).__name__,str(e)[:50],fr.filename.split('/')[-1],fr.lineno))
    finally: bb.BADS._init_mesh_=orig
for D in (1,2,3):
    for noisy in (False,'auto','decl'):
        for mfe in (1,2,3,5,6,8,12,20,34,40,45):
            print(D,noisy,mfe,go(D,mfe,noisy))
