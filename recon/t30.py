import numpy as np, warnings, logging, itertools, collections, sys, time
warnings.filterwarnings("ignore"); logging.disable(logging.CRITICAL)
from multiprocessing import Pool
class _NA:
    def __eq__(s,o): return isinstance(o,_NA)
    def __ne__(s,o): return not isinstance(o,_NA)
    def __hash__(s): return 7
    def __repr__(s): return 'NA'
NA=_NA()
V=[NA,-np.inf,-2.0,-1.0,float(np.nextafter(-1,0)),0.0,1.0,2.0,10.0,np.inf,float('nan')]
def validate(x0,lb,plb,pub,ub):
    """3-valued validator from the C08 statement, D=1. returns ('REJECT'|'ACCEPT'|'EITHER', reason)"""
    # dimension inferable?
    if x0 == NA and (plb == NA or pub == NA) and (lb == NA or ub == NA) :
        # plausible default to hard bounds only if given
        p_l = plb if plb != NA else lb; p_u = pub if pub != NA else ub
        if p_l == NA or p_u == NA: return 'REJECT','nodim'
    L=-np.inf if lb == NA else lb; U=np.inf if ub == NA else ub
    P=L if plb == NA else plb; Q=U if pub == NA else pub
    if any(np.isnan(v) for v in (L,U,P,Q)): return 'REJECT','nan bound'
    if not (np.isfinite(P) and np.isfinite(Q)): return 'REJECT','plausible nonfinite'
    if P==Q: return 'REJECT','plausible equal'
    if not (L<=P<Q<=U): return 'REJECT','order'
    if L==U: return 'REJECT','fixed'
    if np.isfinite(L)!=np.isfinite(U): return 'REJECT','half'
    if np.isfinite(L) and abs(U-L)<=4*np.spacing(max(abs(L),abs(U))): return 'EITHER','hard bounds within ulps'
    if x0 != NA:
        if np.isnan(x0) or np.isinf(x0): return 'EITHER','x0 nonfinite'
        if x0<L or x0>U: return 'REJECT','x0 outside'
    return 'ACCEPT',''
def arr(v): return None if v == NA else np.array([[v]],float)
def job(cell):
    from pybads import BADS
    x0,lb,plb,pub,ub=cell
    n=[0]
    def f(x): n[0]+=1; return 0.0
    exp,why=validate(*cell)
    try:
        b=BADS(f,x0=arr(x0),lower_bounds=arr(lb),upper_bounds=arr(ub),plausible_lower_bounds=arr(plb),plausible_upper_bounds=arr(pub),options={"display":"off","random_seed":1})
        got='ACCEPT'
        # postconditions
        L,U,P,Q=b.var_transf.orig_lb,b.var_transf.orig_ub,b.var_transf.orig_plb,b.var_transf.orig_pub
        post = bool(np.all(L<=P) and np.all(P<Q) and np.all(Q<=U) and np.all(np.isfinite(b.x0)) and np.all((b.x0>L)|~np.isfinite(L)) and np.all((b.x0<U)|~np.isfinite(U)))
        if not post: got='ACCEPT-badpost'
    except ValueError as e: got='REJECT'; post=None
    except Exception as e: got='EXC:'+type(e).__name__
    if n[0]: got+='+called'
    ok = (exp=='EITHER' and got in('ACCEPT','REJECT')) or exp==got
    return cell,exp,why,got,ok
if __name__=='__main__':
    t=time.time()
    cells=list(itertools.product(V,repeat=5))
    with Pool(16) as p: res=p.map(job,cells,chunksize=200)
    print('cells',len(res),'time',round(time.time()-t,1))
    c=collections.Counter((r[1],r[3]) for r in res); print(c)
    bad=[r for r in res if not r[4]]
    print('mismatches',len(bad))
    g=collections.defaultdict(list)
    for r in bad: g[(r[1],r[2],r[3])].append(r[0])
    for k,v in sorted(g.items(), key=lambda kv:-len(kv[1])): print(len(v),k,v[:3])
