import numpy as np, warnings, itertools, collections, math, time
warnings.filterwarnings("ignore")
from pybads.variable_transformer import VariableTransformer
mags=[1e-12,1e-6,1e-3,0.5,1,5,10,100,1e3,1e6,1e12]
M=sorted(set([-m for m in mags]+[0.0]+mags))
t=time.time(); res=collections.Counter(); ex={}
nq=0
for lb in [-np.inf]+M:
  for ub in M+[np.inf]:
    if np.isfinite(lb)!=np.isfinite(ub): continue
    for plb in M:
      if plb<lb: continue
      for pub in M:
        if not (plb<pub<=ub): continue
        if lb==ub: continue
        nq+=1
        arr=lambda v: np.array([[v]],float)
        try:
            vt=VariableTransformer(1,arr(lb),arr(ub),arr(plb),arr(pub))
        except Exception as e:
            k=('construct',type(e).__name__,str(e)[:40]); res[k]+=1; ex.setdefault(k,(lb,plb,pub,ub)); continue
        logexp = (lb>0 and ub>0 and plb>0 and pub>0 and pub/plb>=10)
        if bool(vt.apply_log_t[0,0])!=logexp: k=('logflag',); res[k]+=1; ex.setdefault(k,(lb,plb,pub,ub))
        width=(ub-lb) if np.isfinite(lb) else (pub-plb)
        lo=lb if np.isfinite(lb) else plb-10*width; hi=ub if np.isfinite(ub) else pub+10*width
        pts=[lo,plb,pub,hi,0.5*(plb+pub)]+list(np.linspace(lo,hi,9))
        if logexp: pts+=[math.sqrt(plb*pub)]+list(np.geomspace(lo,hi,9))
        pts=sorted(set(float(p) for p in pts if lo<=p<=hi))
        X=np.array(pts)[:,None]
        U=vt(X); Xb=vt.inverse_transf(U)
        # reference
        if logexp:
            mu=0.5*(math.log(plb)+math.log(pub)); ga=0.5*(math.log(pub)-math.log(plb)); ref=np.array([(math.log(p)-mu)/ga for p in pts])
        else:
            mu=0.5*(plb+pub); ga=0.5*(pub-plb); ref=np.array([(p-mu)/ga for p in pts])
        if not np.allclose(U[:,0],ref,rtol=1e-12,atol=1e-12): k=('forward',logexp); res[k]+=1; ex.setdefault(k,(lb,plb,pub,ub))
        if abs(vt.plb[0,0]+1)>1e-12 or abs(vt.pub[0,0]-1)>1e-12: k=('plb/pub',); res[k]+=1; ex.setdefault(k,(lb,plb,pub,ub))
        err=np.max(np.abs(Xb[:,0]-np.array(pts)))
        if not err<1e-9*width: k=('roundtrip',logexp); res[k]+=1; ex.setdefault(k,(lb,plb,pub,ub,err/width))
        if np.any(np.diff(U[:,0])<0) or np.any(np.diff(Xb[:,0])<0): k=('order',); res[k]+=1; ex.setdefault(k,(lb,plb,pub,ub))
        # clamp for slightly outside
        if np.isfinite(lb):
            out=np.array([[lb-1e-9*width],[ub+1e-9*width]])
            Uo=vt(out)
            if np.any(Uo<vt.lb) or np.any(Uo>vt.ub): k=('clamp fwd',); res[k]+=1; ex.setdefault(k,(lb,plb,pub,ub))
            Xo=vt.inverse_transf(np.array([[vt.lb[0,0]-1e-9],[vt.ub[0,0]+1e-9]]))
            if np.any(Xo<lb) or np.any(Xo>ub): k=('clamp inv',); res[k]+=1; ex.setdefault(k,(lb,plb,pub,ub))
        res[('ok-checked',)]+=1
print('quadruples',nq,'time',round(time.time()-t,1))
for k,v in res.most_common(): print(v,k,ex.get(k))
