import numpy as np, warnings, os, sys
warnings.filterwarnings("ignore")
import pybads; assert '/tmp/recon/pkg' in pybads.__file__, pybads.__file__
import pybads.bads.bads as bb
from pybads import BADS
def drive(D, script, opts):
    # script: list per loop iteration: dict(search='S'|'I'|'F', poll=[...])
    st={'m':None,'k':0,'phase':None,'it':0,'pidx':0,'seen':{}}
    def f(x):
        key=tuple(np.asarray(x,float).ravel()); k=st['k']; st['k']+=1
        if st['m'] is None: v=100.0
        elif key in st['seen']: v=st['seen'][key]
        else:
            it=st['it']; a='F'
            if it<len(script):
                if st['phase']=='search': a=script[it].get('search','F')
                elif st['phase']=='poll':
                    pl=script[it].get('poll',[]); a=pl[st['pidx']] if st['pidx']<len(pl) else 'F'; st['pidx']+=1
            v={'S':st['m']-2.0,'I':st['m']-1e-9,'F':st['m']+1.0,'E':st['m']}[a]
        st['seen'].setdefault(key,v); st['m']=v if st['m'] is None else min(st['m'],v)
        return v
    os_=bb.BADS._search_step_; op=bb.BADS._poll_step_
    def ss(self,gp):
        st['phase']='search'
        try: return os_(self,gp)
        finally: st['phase']=None
    def ps(self,gp):
        st['phase']='poll'; st['pidx']=0
        try: return op(self,gp)
        finally: st['phase']=None
    bb.BADS._search_step_=ss; bb.BADS._poll_step_=ps
    trace=[]
    def probe(self, loop_iter, pit, dos, dop, fin, msg):
        mk={'':'', 'max_fun':'fe','max_iter':'it','tol_mesh':'mesh','tol_fun':'fun'}
        m=''
        for kk,vv in (("max_fun_evals","fe"),("max_iter","it"),("tol_mesh","mesh"),("tol_fun","fun")):
            if kk in msg: m=vv
        trace.append(dict(sc=int(self.optim_state['search_count']), ss=int(self.search_success), k=int(self.mesh_size_integer), fc=self.function_logger.func_count, pit=pit, fin=fin, msg=m, dos=bool(dos), dop=bool(dop), lvl=round((100-st['m'])/2)))
        st['it']+=1
    bb.BADS._verif_probe=probe
    o={"display":"off","random_seed":1,"complete_poll":True}; o.update(opts)
    kw=dict(x0=np.full((1,D),1.0), plausible_lower_bounds=np.full(D,-2.), plausible_upper_bounds=np.full(D,2.))
    try:
        b=BADS(f,options=o,**kw); r=b.optimize()
    finally:
        bb.BADS._search_step_=os_; bb.BADS._poll_step_=op
    return trace,r,b
os.environ['PYBADS_VERIF']='1'
tr,r,b=drive(1,[{}, {'search':'S'},{'search':'F'},{'search':'I'},{'search':'F'},{'search':'F'},{'search':'F'},{'poll':['F','S']}],{"max_fun_evals":16,"tol_mesh":2**-4})
print('NTry',b.options['search_n_try'],'TSI',b.options['tol_stall_iters'])
for t in tr: print(t)
print(r.message, r.func_count)
