import numpy as np, warnings, time, itertools, sys
warnings.filterwarnings("ignore")
from multiprocessing import Pool
def rot(D,ang):
    R=np.eye(D)
    for i in range(D-1):
        G=np.eye(D); c,s=np.cos(ang*(i+1)),np.sin(ang*(i+1)); G[i,i]=c;G[i+1,i+1]=c;G[i,i+1]=-s;G[i+1,i]=s; R=R@G
    return R
def job(a):
    D,cond,ang,mi,xi,seed=a
    from pybads import BADS
    R=rot(D,ang); ev=np.geomspace(1,cond,D) if D>1 else np.array([float(cond)]); A=R@np.diag(ev)@R.T
    mpat=[(-4,0,3),(0,0,0),(3,-3,1.5)][mi]; m=np.array([mpat[i%3] for i in range(D)],float)
    x0=np.full((1,D),[-2.5,0.0,4.5][xi]) 
    best=[np.inf]; hit=[None]; n=[0]; first=[None]
    def f(x):
        n[0]+=1; d=np.asarray(x,float).ravel()-m; v=float(0.5*d@A@d)
        if first[0] is None: first[0]=v
        if v<best[0]: best[0]=v
        if hit[0] is None and best[0]<1e-2: hit[0]=n[0]
        return v
    b=BADS(f,x0=x0,lower_bounds=np.full(D,-20.),upper_bounds=np.full(D,20.),plausible_lower_bounds=np.full(D,-5.),plausible_upper_bounds=np.full(D,5.),options={"display":"off","random_seed":seed})
    r=b.optimize()
    d=np.ravel(r.x)-m
    return (a, float(0.5*d@A@d), hit[0], r.func_count, first[0])
if __name__=='__main__':
    jobs=[(D,c,ang,mi,xi,7) for D in (1,2,3,4,5) for c in (1,10,100) for ang in (0.0,0.7) for mi in (0,2) for xi in (0,2)]
    t=time.time()
    with Pool(16) as p: res=p.map(job,jobs)
    print('n',len(res),'time',time.time()-t)
    for D in (1,2,3,4,5):
        rr=[r for r in res if r[0][0]==D]
        print(D,'pass1e-3',sum(r[1]<1e-3 for r in rr),'/',len(rr),'median hit',np.median([r[2] if r[2] else 9999 for r in rr]),'worse than start',sum(r[1]>r[4] for r in rr), 'max gap',max(r[1] for r in rr))
    print('total pass',sum(r[1]<1e-3 for r in res)/len(res))
