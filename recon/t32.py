import numpy as np, copy, time, itertools, warnings, collections
warnings.filterwarnings("ignore")
from pybads.function_logger import FunctionLogger
class Ref:
    """boring reference: list of records"""
    def __init__(s, level): s.level=level; s.rows=[]; s.func_count=0
    def clone(s): r=Ref(s.level); r.rows=copy.deepcopy(s.rows); r.func_count=s.func_count; return r
    def observe(s, p, v, sd, record, is_call):
        if is_call: pass
        if not record:
            # not recorded: count it on the last record at that point, if any
            idx=[i for i,r in enumerate(s.rows) if r['x']==p]
            if idx: s.rows[idx[-1]]['n']+=1
        else:
            merged=False
            if s.level==2 or (not is_call and s.level>0):   # an SD accompanies the observation
                idx=[i for i,r in enumerate(s.rows) if r['x']==p]
                if idx:
                    r=s.rows[idx[0]]; tn=1/r['s']**2; t1=1/sd**2
                    r['y']=(tn*r['y']+t1*v)/(tn+t1); r['s']=1/np.sqrt(tn+t1); r['n']+=1; r['merged']=True; merged=True
            if not merged:
                s.rows.append({'x':p,'y':v,'y0':v,'s':sd,'n':1,'merged':False})
        if is_call: s.func_count+=1
def compare(fl, ref):
    n=len(ref.rows); out=[]
    if fl.Xn!=n-1: out.append('Xn %d vs %d'%(fl.Xn,n-1)); return out
    if fl.func_count!=ref.func_count: out.append('func_count')
    for i,r in enumerate(ref.rows):
        if tuple(fl.X[i])!=r['x'] or tuple(fl.X_orig[i])!=r['x']: out.append('X row %d'%i)
        if not np.isclose(fl.Y[i,0],r['y'],rtol=1e-12,atol=0): out.append('Y row %d: %g vs %g'%(i,fl.Y[i,0],r['y']))
        if not r['merged'] and fl.Y_orig[i,0]!=r['y0']: out.append('Y_orig row')
        if fl.noise_flag and r['s'] is not None and not np.isclose(fl.S[i,0],r['s'],rtol=1e-12): out.append('S row %d'%i)
        if fl.n_evals[i,0]!=r['n']: out.append('n_evals row %d: %g vs %d'%(i,fl.n_evals[i,0],r['n']))
        if not fl.X_flag[i]: out.append('X_flag')
    if np.any(fl.X_flag[n:]) or np.any(~np.isnan(fl.X[n:])) or np.any(~np.isnan(fl.Y[n:])) or np.any(fl.n_evals[n:]!=0): out.append('tail dirty')
    if fl.X_max_idx!=n-1: out.append('X_max_idx %s vs %d'%(fl.X_max_idx,n-1))
    return out
def run(D, level, cache, depth):
    pts={1:[(0.,),(1.,),(2.,)], 2:[(0.,0.),(0.,1.),(1.,0.),(1.,1.)]}[D]
    vals=[1.0,3.0]; sds=[1.0,0.5] if level==2 else [None]
    ops=[('call',p,v,s,r) for p in pts for v in vals for s in sds for r in (True,False)]
    ops+=[('add',p,v,s,None) for p in pts for v in vals for s in ([1.0,0.5] if level>0 else [None])]
    holder={}
    def fun(x): return (holder['v'],holder['s']) if level==2 else holder['v']
    root=FunctionLogger(fun,D,level>0,level,cache_size=cache)
    frontier=[(root,Ref(level),())]; seen=set(); mism=collections.Counter(); ex={}; trans=0
    for d in range(depth):
        nxt=[]
        for fl,ref,hist in frontier:
            for op in ops:
                g=copy.deepcopy(fl); g.fun=fun; r=ref.clone()
                holder['v']=op[2]; holder['s']=op[3]
                try:
                    if op[0]=='call': g(np.array(op[1]), record_duplicate_data=op[4]); r.observe(op[1],op[2],op[3],op[4],True)
                    else:
                        (g.add(np.array(op[1]),op[2],op[3]) if level>0 else g.add(np.array(op[1]),op[2])); r.observe(op[1],op[2],op[3] if level>0 else None,True,False)
                except Exception as e:
                    k='EXC '+type(e).__name__+' '+str(e)[:40]; mism[k]+=1; ex.setdefault(k,hist+(op,)); continue
                trans+=1
                bad=compare(g,r)
                if bad:
                    k=bad[0].split(' row')[0].split(':')[0]; mism[k]+=1; ex.setdefault(k,(hist+(op,),bad[:2])); continue
                c=(g.Xn,g.func_count,g.X[:g.Xn+1].tobytes(),g.Y[:g.Xn+1].tobytes(),g.n_evals[:g.Xn+1].tobytes(),g.S[:g.Xn+1].tobytes() if g.noise_flag else b'')
                if c not in seen: seen.add(c); nxt.append((g,r,hist+(op,)))
        frontier=nxt
    return len(seen),trans,mism,ex
for D,level,cache,depth in ((2,2,1,3),(2,1,2,3),(2,0,1,3),(1,2,2,3)):
    t=time.time(); s,tr,m,ex=run(D,level,cache,depth)
    print('D',D,'level',level,'cache',cache,'depth',depth,'states',s,'trans',tr,'time',round(time.time()-t,1))
    for k,v in m.most_common(): print('   ',v,k,'e.g.',ex[k])
