import numpy as np, warnings, collections, time, logging, sys, traceback
warnings.filterwarnings("ignore"); logging.disable(logging.CRITICAL)
from multiprocessing import Pool
def execute(job):
    D,mode,faults=job
    import gpyreg
    from pybads import BADS
    GP=gpyreg.GP; orig=GP.fit; cnt={'k':0}
    def fit(self,*a,**k):
        i=cnt['k']; cnt['k']+=1
        if i in faults: raise np.linalg.LinAlgError('injected')
        return orig(self,*a,**k)
    GP.fit=fit
    st={'k':0}
    def f(x):
        k=st['k']; st['k']+=1
        y=float(np.sum((np.asarray(x)-0.3)**2)); s=1.0+0.1*np.sqrt(y)
        v=y if mode=='det' else y+0.5*s*(1 if k%2==0 else -1)
        return (v,s) if mode=='spec' else v
    o={"display":"off","random_seed":2,"max_fun_evals":{'det':35,'decl':60,'spec':60,'auto':60}[mode],"noise_final_samples":3}
    if mode in('decl','spec'): o["uncertainty_handling"]=True
    if mode=='spec': o["specify_target_noise"]=True
    try:
        b=BADS(f,x0=np.full((1,D),1.0),lower_bounds=np.full(D,-5.),upper_bounds=np.full(D,5.),plausible_lower_bounds=np.full(D,-2.),plausible_upper_bounds=np.full(D,2.),options=o)
        r=b.optimize(); out='OK'
    except Exception as e:
        tb=traceback.extract_tb(sys.exc_info()[2]); fr=[t for t in tb if 'pybads' in t.filename][-1]
        out='%s@%s:%d %s'%(type(e).__name__,fr.name,fr.lineno,str(e)[:40])
    finally: GP.fit=orig
    return job,cnt['k'],out
if __name__=='__main__':
    t=time.time()
    with Pool(16) as p:
        base=[(D,m,frozenset()) for D in (1,2) for m in ('det','auto','decl','spec')]
        r0=p.map(execute,base)
        jobs=[]
        for (job,F,out) in r0:
            D,m,_=job
            pats=set()
            for j in range(F+2):
                for L in (1,2,3,4): pats.add(frozenset(range(j,j+L)))
                for j2 in range(j+2,F+2): pats.add(frozenset((j,j2)))
            jobs+=[(D,m,p_) for p_ in pats]
        r1=p.map(execute,jobs,chunksize=4)
    print('baseline',[(r[0][:2],r[1],r[2][:30]) for r in r0]); print('faulted runs',len(r1),'time',round(time.time()-t,1))
    c=collections.Counter((r[0][1],r[2]) for r in r1)
    for k,v in c.most_common(20): print(v,k)
    for m in ('det','auto','decl'):
        ex=[(r[0][0],sorted(r[0][2]),r[2]) for r in r1 if r[0][1]==m and r[2]!='OK'][:3]
        print(m,ex)
