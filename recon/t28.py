import numpy as np, warnings, sys, collections, time, logging
warnings.filterwarnings("ignore"); logging.disable(logging.CRITICAL)
from multiprocessing import Pool
def execute(job):
    D,mode,geo,cons,seed,mfe=job
    import pybads.bads.bads as bb
    import pybads.search.es_search as es
    from pybads import BADS
    viol=[]; stats=collections.Counter()
    if geo=='lin': lb,ub,plb,pub,x0=-5.,5.,-2.,2.,1.0
    else: lb,ub,plb,pub,x0=1e-3,1e3,1e-2,1e2,5.0
    tgt=ub  # minimiser on the corner
    def f(x):
        x=np.asarray(x,float); z=np.log10(x) if geo=='log' else x; t=np.log10(tgt) if geo=='log' else tgt
        y=float(np.sum((z-t)**2))
        if mode=='det': return y
        s=1.0+0.1*np.sqrt(y); v=y+0.3*s*np.random.randn()
        return (v,s) if mode=='spec' else v
    c=None
    if cons=='ball': c=(lambda X: np.sum((np.atleast_2d(X)-x0)**2,1) > (16.0 if geo!='log' else 1e4))
    holder={}
    # ---- C15 seams
    def check_gp(tag, gp, fl, u=None, sorted_=False):
        n=fl.Xn+1; X=fl.X[:n]; Y=fl.Y[:n]
        for i in range(gp.X.shape[0]):
            rows=np.where((X==gp.X[i]).all(1))[0]
            if len(rows)==0: viol.append('C15 %s training input not in log'%tag); break
            if not any(Y[r,0]==np.ravel(gp.y)[i] for r in rows): viol.append('C15 %s training value not in log'%tag); break
            if fl.noise_flag and fl.he_noise_flag and gp.s2 is not None:
                if not any(np.ravel(gp.s2)[i]==fl.S[r,0]**2 for r in rows): viol.append('C15 %s s2 != S^2'%tag); break
        stats['gp_'+tag]+=1
    o_lgf=bb.local_gp_fitting
    def lgf(gp,u,fl,options,optim_state,ih,refit):
        ls=gp.temporary_data['len_scale']; 
        out=o_lgf(gp,u,fl,options,optim_state,ih,refit); g=out[0]
        check_gp('local',g,fl)
        # nearest ordering wrt metric with the len_scale used for selection
        n=fl.Xn+1; X=fl.X[:n]
        d=np.sum(((X-np.ravel(u))/ls)**2,1)
        dsel=np.sum(((g.X-np.ravel(u))/ls)**2,1)
        k=g.X.shape[0]
        if np.any(np.diff(dsel)<-1e-12): viol.append('C15 not ascending')
        if k<n and dsel.max()>np.sort(d)[k-1]+1e-12: viol.append('C15 not nearest')
        if not (min(n,options['n_train_min'])<=k<=max(options['n_train_min'],options['n_train_max'])): viol.append('C15 size %d n=%d'%(k,n))
        return out
    bb.local_gp_fitting=lgf
    o_add=bb.add_and_update_gp
    def add(fl,gp,x_new,y_new,sd_new=None,options=None):
        k0=gp.X.shape[0]; g=o_add(fl,gp,x_new,y_new,sd_new,options)
        if g.X.shape[0]!=k0+1: viol.append('C15 add size')
        i=fl.Xn  # may be a merged row
        if not np.array_equal(g.X[-1],np.ravel(x_new)): viol.append('C15 add x')
        check_gp('add',g,fl)
        return g
    bb.add_and_update_gp=add
    # ---- acquisition
    def mk_acq(orig, tag):
        def acq(xi,fc,gp,sqrt_beta=None):
            z,mu,s=orig(xi,fc,gp,sqrt_beta)
            if xi.shape[0]>0:
                t=fc+1; sb=np.sqrt(0.2*2*np.log(xi.shape[1]*t**2*np.pi**2/(6*0.1)))
                m2,s2=gp.predict(xi)
                if not np.allclose(z, m2-sb*np.sqrt(s2), rtol=1e-12, atol=1e-12, equal_nan=True): viol.append('C15 lcb formula')
            if tag=='es' and 'es' in holder: holder['es'].append((xi.copy(),np.ravel(z).copy()))
            stats['acq_'+tag]+=1
            return z,mu,s
        return acq
    o_acq_b=bb.acq_fcn_lcb; o_acq_e=es.acq_fcn_lcb
    bb.acq_fcn_lcb=mk_acq(o_acq_b,'bads'); es.acq_fcn_lcb=mk_acq(o_acq_e,'es')
    # ---- C18 ES call
    o_call=es.ESSearch.__call__
    def escall(self,u,lb_,ub_,fl,gp,optim_state,sum_rule=True,non_box_cons=None):
        holder['es']=[]
        us,z=o_call(self,u,lb_,ub_,fl,gp,optim_state,sum_rule,non_box_cons)
        allz=np.concatenate([b_ for a_,b_ in holder['es']]); allx=np.vstack([a_ for a_,b_ in holder['es']])
        if not (z==np.nanmin(allz)): viol.append('C18 returned z not min (%g vs %g)'%(z,np.nanmin(allz)))
        j=np.where((allx==us).all(1))[0]
        if len(j)==0 or not any(allz[i]==z for i in j): viol.append('C18 returned point not a candidate with that value')
        if np.any(allx<optim_state['lb_search']-0) or np.any(allx>optim_state['ub_search']+0): viol.append('C18 candidate outside search box')
        stats['es_calls']+=1; stats['es_cands']+=len(allz)
        del holder['es']
        return us,z
    es.ESSearch.__call__=escall
    # ---- C17 seam
    def mk_cc(orig, tag):
        def cc(U,lb_,ub_,tol,fl,proj=True,nbc=None):
            out=orig(U,lb_,ub_,tol,fl,proj,nbc)
            if out.size:
                if np.any(out<lb_) or np.any(out>ub_): viol.append('C17 %s outside box'%tag)
                if len(np.unique(out,axis=0))!=len(out): viol.append('C17 %s duplicates'%tag)
                if nbc is not None and np.any(nbc(fl.variable_transformer.inverse_transf(out))>0): viol.append('C17 %s infeasible'%tag)
                n=fl.X_max_idx+1
                a=np.round(out/(tol/2)); b_=np.round(fl.X[:n]/(tol/2))
                hit=sum(1 for r in a if (b_==r).all(1).any())
                if hit: stats['C17_evaluated_not_removed_'+tag]+=1
            stats['cc_'+tag]+=1
            return out
        return cc
    o_cc_b=bb.contraints_check; o_cc_e=es.contraints_check
    bb.contraints_check=mk_cc(o_cc_b,'bads'); es.contraints_check=mk_cc(o_cc_e,'es')
    # ---- C14 run level + C18 one eval per search
    pm_o=bb.poll_mads_2n; cur={}
    def pmw(D_,scale,sm,m):
        B=pm_o(D_,scale,sm,m); cur['B']=B; cur['scale']=np.array(scale,float).copy(); return B
    bb.poll_mads_2n=pmw
    calls=[]
    o_fl=bb.FunctionLogger.__call__
    def flc(self,x,record_duplicate_data=True):
        calls.append(np.ravel(x).copy()); return o_fl(self,x,record_duplicate_data)
    bb.FunctionLogger.__call__=flc
    o_ps=bb.BADS._poll_step_
    def ps(self,gp):
        u0=self.u.copy(); mesh=self.mesh_size; c0=len(calls); cur.pop('B',None)
        r=o_ps(self,gp)
        pts=calls[c0:]
        if len(pts)>2*self.D: viol.append('C14 more than 2D polls')
        if pts:
            dirs=cur['B']*cur['scale']*mesh
            used=[]
            for p in pts:
                d=p-u0; j=[i for i in range(len(dirs)) if np.allclose(d,dirs[i],rtol=1e-12,atol=1e-15)]
                if not j: viol.append('C14 polled point not incumbent+mesh*dir'); break
                used.append(j[0])
            if len(set(used))!=len(used): viol.append('C14 direction reused')
        stats['polls']+=1
        return r
    bb.BADS._poll_step_=ps
    o_ss=bb.BADS._search_step_
    def ss(self,gp):
        c0=len(calls); r=o_ss(self,gp)
        if len(calls)-c0>1: viol.append('C18 search cost >1')
        stats['searches']+=1; return r
    bb.BADS._search_step_=ss
    try:
        o={"display":"off","random_seed":seed,"max_fun_evals":mfe,"noise_final_samples":3}
        if mode in('decl','spec'): o["uncertainty_handling"]=True
        if mode=='spec': o["specify_target_noise"]=True
        b=BADS(f,x0=np.full((1,D),x0),lower_bounds=np.full(D,lb),upper_bounds=np.full(D,ub),plausible_lower_bounds=np.full(D,plb),plausible_upper_bounds=np.full(D,pub),non_box_cons=c,options=o)
        r=b.optimize()
    except Exception as e:
        import traceback; tb=traceback.extract_tb(sys.exc_info()[2]); fr=[t for t in tb if 'pybads' in t.filename][-1]
        viol.append('EXC %s@%s:%d'%(type(e).__name__,fr.name,fr.lineno))
    finally:
        bb.local_gp_fitting=o_lgf; bb.add_and_update_gp=o_add; bb.acq_fcn_lcb=o_acq_b; es.acq_fcn_lcb=o_acq_e
        es.ESSearch.__call__=o_call; bb.contraints_check=o_cc_b; es.contraints_check=o_cc_e; bb.poll_mads_2n=pm_o
        bb.FunctionLogger.__call__=o_fl; bb.BADS._poll_step_=o_ps; bb.BADS._search_step_=o_ss
    return job, sorted(set(viol)), dict(stats)
if __name__=='__main__':
    t=time.time()
    jobs=[(D,m,g,c,s,mfe) for D in (1,2,3) for m in ('det','decl','spec') for g in ('lin','log') for c in (None,'ball') for s in (1,2) for mfe in (70,160)]
    with Pool(16) as p: res=p.map(execute,jobs,chunksize=2)
    print('executions',len(res),'time',round(time.time()-t,1))
    cnt=collections.Counter((r[0][1],v) for r in res for v in r[1])
    for k,v in sorted(cnt.items(), key=lambda kv:-kv[1]): print(v,k)
    tot=collections.Counter()
    for r in res: tot.update(r[2])
    print(dict(tot))
