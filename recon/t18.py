import numpy as np, itertools, warnings, time
from fractions import Fraction
warnings.filterwarnings("ignore")
import pybads.poll, sys; pm=sys.modules["pybads.poll.poll_mads_2n"]
class Enum:
    def __init__(self, choices): self.choices=choices; self.i=0; self.log=[]
    def _next(self, n):
        c=self.choices[self.i] if self.i<len(self.choices) else 0
        self.log.append(n); self.i+=1; assert c<n; return c
    def randint(self, low, high=None, size=None):
        low=int(low); high=int(high)
        if size is None: return low+self._next(high-low)
        shape=(size,) if np.isscalar(size) else tuple(size)
        out=np.empty(shape,dtype=int)
        if len(shape)==2:
            out[:]=low   # entries outside the strict lower triangle are discarded by tril
            for i in range(shape[0]):
                for j in range(i): out[i,j]=low+self._next(high-low)
        else:
            for i in range(shape[0]): out[i]=low+self._next(high-low)
        return out
    def permutation(self, x):
        n=len(x); perms=list(itertools.permutations(range(n)))
        p=perms[self._next(len(perms))]
        return np.asarray(x)[list(p)]
def det(M):
    M=[[Fraction(int(round(v))) for v in r] for r in M]; n=len(M); d=Fraction(1)
    for c in range(n):
        p=next((r for r in range(c,n) if M[r][c]!=0),None)
        if p is None: return Fraction(0)
        if p!=c: M[c],M[p]=M[p],M[c]; d=-d
        d*=M[c][c]
        for r in range(c+1,n):
            f=M[r][c]/M[c][c]
            M[r]=[a-f*b for a,b in zip(M[r],M[c])]
    return d
def explore(D, nratio, scale):
    total=0; bad=[]
    stack=[[]]
    while stack:
        pre=stack.pop()
        e=Enum(pre); pm.rnd=e
        B=pm.poll_mads_2n(D, scale, float(nratio), 1.0)
        total+=1
        M=B[:D]*scale
        ok = np.array_equal(B[D:], -B[:D]) and np.allclose(M, np.round(M)) and np.max(np.abs(M))<=nratio and det(M)!=0
        if nratio==1: ok = ok and np.array_equal(np.sort(np.abs(M),axis=None), np.sort(np.eye(D),axis=None)) and np.all(np.abs(M).sum(0)==1) and np.all(np.abs(M).sum(1)==1)
        if not ok: bad.append((pre,B))
        for i in range(len(pre), len(e.log)):
            for alt in range(1, e.log[i]):
                stack.append(pre+[0]*(i-len(pre))+[alt])
    return total,bad
t=time.time()
for D in (1,2,3):
    for n in (1,2,4):
        tot,bad=explore(D,n,np.ones(D))
        print(D,n,tot,len(bad), bad[:1])
print(time.time()-t)
pm.rnd=np.random
