"""Entry point: python -m mc.runner <ID> [--tier quick|thorough] [--replay path]."""
import argparse
import importlib
import json
import os
import sys
import traceback

from . import common


def main():
    ap = argparse.ArgumentParser()
    ap.add_argument("pid")
    ap.add_argument("--tier", default=os.environ.get("VERIF_TIER", "quick"), choices=["quick", "thorough"])
    ap.add_argument("--replay", default=None)
    a = ap.parse_args()
    seed = int(os.environ.get("VERIF_SEED", "0") or 0)
    common.worker_env()
    common.quiet()
    pid = a.pid.upper()
    try:
        common.assert_repo()
        mod = importlib.import_module("mc.props.%s" % pid.lower())
        if a.replay:
            with open(a.replay) as f:
                art = json.load(f)
            ok = mod.replay(art["case"], art["key"])
            print("replay %s: %s" % (a.replay, "REPRODUCED" if ok else "not reproduced"))
            if ok:
                print("VIOLATION property=%s replay=%s" % (pid, a.replay))
            return 1 if ok else 0
        ctx = common.Ctx(pid, a.tier, seed)
        code = mod.run(ctx)
        return code
    except common.HarnessError as e:
        print("HARNESS-ERROR %s" % e)
        return 2
    except Exception as e:  # noqa
        print("HARNESS-ERROR unexpected %r" % e)
        traceback.print_exc()
        return 2
    finally:
        common.close_pool()


if __name__ == "__main__":
    sys.exit(main())
