"""Shared infrastructure: environment discipline, worker pool, reports, evidence, known findings.

Every check is `python -m mc.runner <ID> --tier quick|thorough` (see /verif/check).  The runner
imports mc.props.<id> and calls run(ctx) which fills a Report.  Exit status: 0 = silent (known
findings allowed), 1 = VIOLATION printed, 2 = HARNESS-ERROR (never a violation claim).
"""
import fnmatch
import hashlib
import json
import multiprocessing as mp
import os
import sys
import time
import traceback

VERIF = os.path.dirname(os.path.dirname(os.path.abspath(__file__)))
REPO = os.environ.get("PYBADS_REPO", "/repo")
EVIDENCE_DIR = os.environ.get("VERIF_EVIDENCE_DIR") or os.path.join(VERIF, "evidence")
REPLAY_DIR = os.environ.get("VERIF_REPLAY_DIR") or os.path.join(VERIF, "replays")
KNOWN_FILE = os.path.join(VERIF, "known_findings.json")
NPROC = int(os.environ.get("VERIF_NPROC", "16"))


class HarnessError(Exception):
    """The machinery itself is broken (missing seam, non-determinism, vacuity): exit 2."""


def worker_env():
    """Environment every worker must have *before* numpy is imported."""
    for k in ("OMP_NUM_THREADS", "OPENBLAS_NUM_THREADS", "MKL_NUM_THREADS", "NUMEXPR_NUM_THREADS"):
        os.environ[k] = "1"
    os.environ["PYBADS_VERIF"] = "1"
    os.environ.setdefault("PYTHONHASHSEED", "0")
    os.environ["MPLBACKEND"] = "Agg"


def quiet():
    import logging
    import warnings

    warnings.filterwarnings("ignore")
    logging.disable(logging.CRITICAL)


def assert_repo():
    import pybads

    p = os.path.realpath(pybads.__file__)
    if not p.startswith(os.path.realpath(REPO) + os.sep):
        raise HarnessError("pybads imported from %s, not from %s" % (p, REPO))


def _init_worker():
    worker_env()
    quiet()
    import numpy as np  # noqa

    np.seterr(all="ignore")


_POOL = None


def pool():
    global _POOL
    if _POOL is None:
        worker_env()
        ctx = mp.get_context("fork")
        _POOL = ctx.Pool(NPROC, initializer=_init_worker, maxtasksperchild=400)
    return _POOL


def close_pool():
    global _POOL
    if _POOL is not None:
        _POOL.close()
        _POOL.join()
        _POOL = None


def pmap(fn, jobs, chunksize=1, ordered=True):
    jobs = list(jobs)
    if not jobs:
        return []
    p = pool()
    if ordered:
        return p.map(fn, jobs, chunksize=chunksize)
    return list(p.imap_unordered(fn, jobs, chunksize=chunksize))


def digest(obj):
    return hashlib.sha256(json.dumps(obj, sort_keys=True, default=_jd).encode()).hexdigest()[:12]


def _jd(o):
    import numpy as np

    if isinstance(o, np.ndarray):
        return o.tolist()
    if isinstance(o, (np.floating,)):
        return float(o)
    if isinstance(o, (np.integer,)):
        return int(o)
    if isinstance(o, (np.bool_,)):
        return bool(o)
    if isinstance(o, (set, frozenset)):
        return sorted(o)
    if isinstance(o, bytes):
        return o.hex()
    if isinstance(o, complex):
        return [o.real, o.imag]
    return repr(o)


def jdump(obj, path):
    tmp = path + ".tmp"
    with open(tmp, "w") as f:
        json.dump(obj, f, indent=1, sort_keys=True, default=_jd)
        f.write("\n")
    os.replace(tmp, path)


def load_known():
    if not os.path.exists(KNOWN_FILE):
        return {"known": [], "fixed": []}
    with open(KNOWN_FILE) as f:
        return json.load(f)


class Ctx:
    def __init__(self, pid, tier, seed):
        self.pid = pid
        self.tier = tier
        self.seed = seed
        self.quick = tier == "quick"

    def seeds(self, n_quick=1, n_thorough=2):
        n = n_quick if self.quick else n_thorough
        return [int(self.seed) * 7 + 1 + i for i in range(n)]


class Report:
    """Collects violations (deduplicated by key), coverage counters and samples for one property."""

    def __init__(self, ctx, level):
        self.ctx = ctx
        self.pid = ctx.pid
        self.level = level
        self.t0 = time.time()
        self.cov = {}
        self.samples = []
        self.assumptions = []
        self.viol = {}  # key -> dict(first occurrence) + count
        self.caps = []
        self.aborted = {}
        self.known = [k for k in load_known().get("known", []) if k["property"] == self.pid]

    # ---- coverage helpers
    def add(self, name, n=1):
        self.cov[name] = self.cov.get(name, 0) + n

    def set(self, name, v):
        self.cov[name] = v

    def sample(self, s, cap=6):
        if len(self.samples) < cap:
            self.samples.append(s)

    def cap_hit(self, what):
        if what not in self.caps:
            self.caps.append(what)

    def abort(self, sig):
        self.aborted[sig] = self.aborted.get(sig, 0) + 1

    # ---- violations
    def violation(self, clause, key, detail, case, prop=None):
        """key: stable identifier of *what* fails (clause + call site / exception signature /
        input class).  The same key many times is one finding; first case kept as replay."""
        prop = prop or self.pid
        k = "%s/%s" % (prop, key)
        v = self.viol.get(k)
        if v is None:
            self.viol[k] = dict(property=prop, clause=clause, key=k, detail=detail, case=case, count=1)
        else:
            v["count"] += 1

    def _match_known(self, key):
        for kf in self.known:
            if fnmatch.fnmatchcase(key, kf["key"]):
                return kf
        return None

    def finish(self, replay_fn=None):
        """Write replays + evidence, print lines, return exit code."""
        os.makedirs(EVIDENCE_DIR, exist_ok=True)
        os.makedirs(REPLAY_DIR, exist_ok=True)
        new, known_seen = [], []
        for k, v in sorted(self.viol.items()):
            if v["property"] != self.pid:
                # a violation of another property seen while exploring for this one is only noted
                continue
            kf = self._match_known(k)
            if kf is not None:
                known_seen.append((kf, v))
            else:
                new.append(v)
        confirmed = []
        for v in new:
            if replay_fn is not None:
                try:
                    ok = replay_fn(v["case"], v["key"])
                except Exception as e:  # replay machinery broken
                    print("HARNESS-ERROR replay of %s failed: %r" % (v["key"], e))
                    traceback.print_exc()
                    return self._write(2, [], known_seen)
                if not ok:
                    print("HARNESS-ERROR violation %s did not reproduce on replay" % v["key"])
                    return self._write(2, [], known_seen)
            confirmed.append(v)
        seen_kf = {}
        for kf, v in known_seen:
            seen_kf.setdefault(kf["key"], [kf, 0])
            seen_kf[kf["key"]][1] += v["count"]
        for key, (kf, n) in sorted(seen_kf.items()):
            print("KNOWN-FINDING: property=%s %s (key %s, seen %d times)" % (self.pid, kf["what"], key, n))
        for v in confirmed:
            path = os.path.join(REPLAY_DIR, "%s-%s.json" % (self.pid, digest([v["key"], v["case"]])))
            jdump(dict(property=self.pid, clause=v["clause"], key=v["key"], detail=v["detail"],
                       case=v["case"], count=v["count"], tier=self.ctx.tier, seed=self.ctx.seed), path)
            print("VIOLATION property=%s replay=%s" % (self.pid, path))
            print("  clause: %s | %s | seen %d times" % (v["clause"], str(v["detail"])[:300], v["count"]))
        return self._write(1 if confirmed else 0, confirmed, known_seen)

    def _write(self, code, confirmed, known_seen):
        cov = dict(self.cov)
        cov["samples"] = self.samples or ["(none)"]
        cov["caps_hit"] = self.caps
        cov["exhaustive"] = bool(cov.get("exhaustive", True)) and not self.caps
        cov["aborted_executions"] = self.aborted
        cov["known_findings_seen"] = sorted({kf["key"] for kf, _ in known_seen})
        ev = dict(property_id=self.pid, tier=self.ctx.tier, seed=int(self.ctx.seed), level=self.level,
                  coverage=cov, assumptions=self.assumptions, wall_s=round(time.time() - self.t0, 2),
                  violations=len(confirmed))
        try:
            import jsonschema

            with open("/root/.vp/EVIDENCE.schema.json") as f:
                jsonschema.validate(json.loads(json.dumps(ev, default=_jd)), json.load(f))
        except ImportError:
            pass
        except FileNotFoundError:
            pass
        jdump(ev, os.path.join(EVIDENCE_DIR, "%s.json" % self.pid))
        brief = {k: v for k, v in cov.items() if isinstance(v, (int, float, bool))}
        print("[%s %s] exit=%d wall=%.1fs %s" % (self.pid, self.ctx.tier, code, time.time() - self.t0, brief))
        return code


def exc_signature(e, tb=None):
    """Type@file:function of the innermost pybads frame."""
    tb = tb or e.__traceback__
    frames = traceback.extract_tb(tb)
    fr = [t for t in frames if "/pybads/" in t.filename]
    if fr:
        t = fr[-1]
        return "%s@%s:%s" % (type(e).__name__, os.path.basename(t.filename), t.name)
    return "%s@<outside>" % type(e).__name__
