"""E3-random: run a randomized function under an *enumerating* random source.  Every call of the
source is a choice point; all combinations of outcomes are executed (depth-first over choice prefixes).
This is exhaustive exploration of the coin flips, not sampling."""
import numpy as np


class Chooser:
    def __init__(self, prefix):
        self.prefix = list(prefix)
        self.trace = []  # (choice, arity)

    def choose(self, n):
        i = len(self.trace)
        c = self.prefix[i] if i < len(self.prefix) else 0
        if not (0 <= c < n):
            raise RuntimeError("replay divergence: choice %d out of range %d at point %d" % (c, n, i))
        self.trace.append((c, n))
        return c


def all_outcomes(fn, cap=None):
    """fn(chooser) -> result.  Yields (choices, result) for every outcome of the choice tree."""
    stack = [[]]
    n = 0
    while stack:
        prefix = stack.pop()
        ch = Chooser(prefix)
        res = fn(ch)
        n += 1
        yield tuple(c for c, _ in ch.trace), res
        if cap is not None and n >= cap:
            return
        for i in range(len(prefix), len(ch.trace)):
            for alt in range(1, ch.trace[i][1]):
                stack.append([c for c, _ in ch.trace[:i]] + [alt])


class EnumRandom:
    """Stand-in for numpy.random inside a module: randint / permutation / rand / randn decided by a Chooser.
    `mask(shape)` may declare positions of an integer matrix draw that are enumerated only over their
    extreme values (declared reduction, reported by the caller)."""

    def __init__(self, chooser, full_mask=None, extreme_mask=None):
        self.ch = chooser
        self.full_mask = full_mask
        self.extreme_mask = extreme_mask

    def randint(self, low, high=None, size=None):
        if high is None:
            low, high = 0, low
        low, high = int(low), int(high)
        ar = high - low
        if size is None:
            return low + self.ch.choose(ar)
        shape = (size,) if np.isscalar(size) else tuple(size)
        out = np.empty(shape, dtype=int)
        for idx in np.ndindex(*shape):
            if len(shape) == 2 and self.full_mask is not None and not self.full_mask(idx):
                if self.extreme_mask is not None and self.extreme_mask(idx) and ar > 1:
                    out[idx] = low + (ar - 1) * self.ch.choose(2)
                else:
                    out[idx] = low
            else:
                out[idx] = low + self.ch.choose(ar)
        return out

    def permutation(self, x):
        x = np.array(x)
        n = len(x)
        idx = list(range(n))
        perm = []
        for k in range(n, 0, -1):
            perm.append(idx.pop(self.ch.choose(k)))
        return x[perm]

    def rand(self, *a):
        raise RuntimeError("uniform draws are decided by the caller")
