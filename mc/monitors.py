"""Run-level oracles, written from the property statements (DESIGN §4).  Each monitor looks only at
what the wrappers saw from outside (call log, constraint log, probe trace) plus the public result
and the documented containers of the BADS object.  A monitor never demands more than its section
of DESIGN.md says."""
import collections

import numpy as np

from . import problems as P

TOL = 1e-12


def apply(run):
    mons = run.job.get("monitors")
    if mons is None:
        mons = ["C01", "C02", "C03", "C04", "C05", "C13", "C14", "C17r", "C18r", "C19"]
    for m in mons:
        fn = globals().get("mon_" + m)
        if fn is not None:
            fn(run)


def completed(run):
    return run.result is not None and run.exc is None


def eqx(a, b):
    return np.array_equal(np.ravel(a), np.ravel(b))


# ---------------------------------------------------------------- C01
def mon_C01(run):
    lb, ub = run.lb, run.ub
    for c in run.calls:
        if np.any(c["x"] < lb) or np.any(c["x"] > ub) or np.any(np.isnan(c["x"])):
            run.v("C01", "target called outside the hard box", "call-outside/%s" % c["phase"], (c["k"], c["x"].tolist()))
            break
    for X in run.cons_calls:
        X2 = np.atleast_2d(X)
        if np.any(X2 < lb) or np.any(X2 > ub) or np.any(np.isnan(X2)):
            run.v("C01", "constraint function called outside the hard box", "cons-outside", X2[:3].tolist())
            break
    if completed(run):
        x = np.ravel(run.result["x"])
        if np.any(x < lb) or np.any(x > ub) or np.any(np.isnan(x)):
            run.v("C01", "returned x outside the hard box", "result-outside", x.tolist())
    b = run.bads
    if b is None or not hasattr(b, "function_logger"):
        return
    fl = b.function_logger
    vt = b.var_transf
    n = fl.Xn + 1
    if n <= 0:
        return
    X, Xo = fl.X[:n], fl.X_orig[:n]
    if np.any(X < vt.lb) or np.any(X > vt.ub) or np.any(np.isnan(X)):
        run.v("C01", "logged internal point outside the transformed box", "log-internal-outside", "")
    back = vt.inverse_transf(X)
    if not np.array_equal(back, Xo):
        i = int(np.where((back != Xo).any(1))[0][0])
        run.v("C01", "logged internal point does not map back to the logged original point", "log-roundtrip", (i, back[i].tolist(), Xo[i].tolist()))
    # rows correspond, in order, to calls the wrapper saw
    j = 0
    for i in range(n):
        while j < len(run.calls) and not np.array_equal(run.calls[j]["x"], Xo[i]):
            j += 1
        if j >= len(run.calls):
            run.v("C01", "logged original point was never passed to the target (in call order)", "log-not-called", (i, Xo[i].tolist()))
            break
        j += 1


# ---------------------------------------------------------------- C02
def mon_C02(run):
    if run.consf is None:
        return
    exp = run.job.get("expect")
    if exp == "reject":
        if not isinstance(run.exc, ValueError) or run.result is not None:
            run.v("C02", "infeasible starting point was not rejected with ValueError", "start-not-rejected/%s" % run.job.get("cell", ""),
                  (type(run.exc).__name__ if run.exc is not None else "returned", len(run.calls)))
        if run.calls:
            run.v("C02", "target was called although the starting point is infeasible", "start-called/%s" % run.job.get("cell", ""), len(run.calls))
        return
    if exp == "accept" and run.bads is None:
        run.v("C02", "feasible starting point was rejected", "start-rejected/%s" % run.job.get("cell", ""), repr(run.exc)[:200])
        return
    for c in run.calls:
        if bool(run.consf(c["x"].reshape(1, -1))[0]):
            run.v("C02", "target evaluated at an infeasible point", "infeasible-call/%s" % c["phase"], (c["k"], c["x"].tolist()))
            break
    if completed(run):
        x = np.ravel(run.result["x"]).reshape(1, -1)
        if bool(run.consf(x)[0]):
            run.v("C02", "returned x is infeasible", "infeasible-result", x.tolist())


# ---------------------------------------------------------------- C03
def mon_C03(run):
    from .harness import NonProgress

    if isinstance(run.exc, NonProgress):
        run.v("C03", "non-progress cycle in the main loop", "non-progress", str(run.exc))
        return
    b = run.bads
    n = len(run.calls)
    nvalid = n - (1 if run.injected else 0)
    if b is not None and hasattr(b, "function_logger") and run.exc is None:
        if b.function_logger.func_count != nvalid:
            run.v("C03", "logger func_count differs from the true number of calls", "flcount", (b.function_logger.func_count, nvalid))
    if not completed(run):
        return
    r = run.result
    if r["func_count"] != n:
        run.v("C03", "reported func_count differs from the true number of calls", "func_count", (r["func_count"], n))
    uo = run.user_opts
    D = run.D
    mfe = uo.get("max_fun_evals", 500 * D)
    # size of the initial design: measured on the run, or - where the job states it - from the documented rule (the starting
    # point, its repeat for the noise test, and the smallest Sobol block of 2^k >= fun_eval_start points), so that a
    # design that is larger than documented cannot hide behind the precondition
    n_init = run.job.get("n_init_rule", run.n_init)
    if n_init is not None and mfe >= n_init and n > mfe:
        run.v("C03", "more target calls than max_fun_evals", "budget-exceeded", (n, mfe, n_init))
    mit = uo.get("max_iter", 200 * D)
    if len(run.polls) > mit:
        run.v("C03", "more poll iterations than max_iter", "max-iter-exceeded", (len(run.polls), mit))
    # message truth (from outside state)
    msg = r["message"] or ""
    code = None
    for kk, vv in (("max_fun_evals", "fe"), ("max_iter", "it"), ("tol_mesh", "mesh"), ("tol_fun", "fun")):
        if kk in msg:
            code = vv
    if code is None and "output_fcn" in msg:
        if uo.get("output_fcn") != "STOP_INIT":
            run.v("C03", "message says the output function stopped the run but none asked to", "msg-false/out", msg)
        return
    if code is None:
        run.v("C03", "termination message names no stopping condition", "msg-empty", msg)
        return
    fin = [p for p in run.probes if p["fin"]]
    calls_at_exit = fin[-1]["calls"] if fin else n
    n_final = n - calls_at_exit
    noisy = r["target_type"] != "deterministic"
    if code == "fe":
        nfs_cfg = uo.get("noise_final_samples", 10) if noisy else 0
        reserve = max(0, min(nfs_cfg, mfe - (run.n_init or 0)))
        if calls_at_exit < mfe - reserve:
            run.v("C03", "message says budget exhausted but it was not", "msg-false/fe", (calls_at_exit, mfe, reserve))
    elif code == "it":
        if not (mit - 1 <= len(run.polls) <= mit):
            run.v("C03", "message says max_iter reached but it was not", "msg-false/it", (len(run.polls), mit))
    elif code == "mesh":
        tm = uo.get("tol_mesh", 1e-6)
        tmr = 2.0 ** np.ceil(np.log(tm) / np.log(2.0))
        if not (r["mesh_size"] < tmr):
            run.v("C03", "message says mesh tolerance reached but mesh size is not below it", "msg-false/mesh", (r["mesh_size"], tmr))
    elif code == "fun":
        tsi = int(4 + np.floor(D / 2)) if "tol_stall_iters" not in uo else int(uo["tol_stall_iters"])
        if noisy:
            tsi *= 2
        npolls = len(run.polls)
        if npolls < tsi:
            run.v("C03", "message says stalled but fewer than tol_stall_iters polls were made", "msg-false/fun-structural", (npolls, tsi))
        elif not noisy:
            H = [v for v in b.iteration_history["fval"] if v is not None]
            pit = fin[-1]["pit"] if fin else len(H) - 1
            tf = uo.get("tol_fun", 1e-3)
            if pit - tsi >= 0 and pit < len(H):
                if not (float(H[pit - tsi]) - float(r["fval"]) < tf):
                    run.v("C03", "message says stalled but the recorded improvement is not below tol_fun", "msg-false/fun", (H[pit - tsi], r["fval"]))


# ---------------------------------------------------------------- C04
def mon_C04(run):
    if run.mode != "det" or not completed(run) or run.script.get("second") is not None:
        return
    r = run.result
    calls = run.calls
    xs = [c["x"] for c in calls]
    vs = [c["val"] for c in calls]
    rx = np.ravel(r["x"])
    idx = [i for i, x in enumerate(xs) if np.array_equal(x, rx)]
    if not idx:
        run.v("C04", "returned x was never evaluated", "x-not-evaluated", rx.tolist())
    elif not any(r["fval"] == vs[i] for i in idx):
        run.v("C04", "returned fval is not the value the target returned at x", "fval-not-value", (r["fval"], [vs[i] for i in idx]))
    if min(vs) < r["fval"]:
        run.v("C04", "a strictly better evaluated point was discarded", "better-discarded", (min(vs), r["fval"]))
    if r["fsd"] != 0:
        run.v("C04", "fsd is not 0 for a deterministic target", "fsd-nonzero", r["fsd"])
    if r["target_type"] != "deterministic":
        run.v("C04", "target_type is not 'deterministic'", "target-type", r["target_type"])
    fh = [float(v) for v in run.bads.iteration_history["fval"] if v is not None]
    if any(fh[i + 1] > fh[i] for i in range(len(fh) - 1)):
        run.v("C04", "recorded incumbent value increases", "history-increases", fh[:8])
    # C06 per-run clause: never worse than the (snapped) start
    if r["fval"] > vs[0]:
        run.v("C06", "returned value worse than the starting point", "worse-than-start", (r["fval"], vs[0]))


# ---------------------------------------------------------------- C05
def mon_C05(run):
    if not completed(run):
        return
    r = run.result
    calls = run.calls
    second = run.script.get("second")
    if run.mode in ("det", "auto") and len(calls) >= 2 and "tol_noise_check" in run.job:
        tn = run.job["tol_noise_check"]
        diff = abs(calls[1]["val"] - calls[0]["val"])
        want = diff > tn
        got = r["target_type"] != "deterministic"
        if want != got:
            run.v("C05", "noise test misclassified the target", "noise-test", (diff, tn, r["target_type"]))
    if r["target_type"] == "deterministic":
        if run.mode != "det" and second is None:
            run.v("C05", "stochastic target reported as deterministic", "type-det", run.mode)
        return
    n = len(calls)
    fin = [p for p in run.probes if p["fin"]]
    calls_at_exit = fin[-1]["calls"] if fin else n
    uo = run.user_opts
    nfs_cfg = uo.get("noise_final_samples", 10)
    mfe = uo.get("max_fun_evals", 500 * run.D)
    nfs = max(0, min(nfs_cfg, mfe - (run.n_init or 0)))
    rx = np.ravel(r["x"])
    xs = [c["x"] for c in calls]
    if not any(np.array_equal(x, rx) for x in xs[: n - nfs]):
        run.v("C05", "returned x was not evaluated before the final samples", "x-not-evaluated-earlier", rx.tolist())
    if n - calls_at_exit != nfs:
        run.v("C05", "number of final re-sampling calls differs from noise_final_samples", "final-count", (n - calls_at_exit, nfs))
        return
    yv = r["yval_vec"]
    if nfs > 0:
        tail = calls[n - nfs:]
        if not all(np.array_equal(c["x"], rx) for c in tail):
            run.v("C05", "final samples were not taken at the returned x", "tail-not-at-x", "")
        if yv is None:
            run.v("C05", "yval_vec missing", "yval-none", "")
            return
        yv = np.ravel(yv)
        if not np.array_equal(yv[:nfs], [c["val"] for c in tail]):
            run.v("C05", "yval_vec does not start with the fresh observations", "yval-vec", "")
        if nfs == 1:
            obs = [c["val"] for c in calls[: n - 1] if np.array_equal(c["x"], rx)]
            if len(yv) != 2:
                run.v("C05", "single final sample not supplemented by the earlier observation", "nfs1-length", len(yv))
            elif obs:
                ok = (yv[1] in obs) if run.mode != "spec" else (min(obs) - 1e-12 <= yv[1] <= max(obs) + 1e-12)
                if not ok:
                    run.v("C05", "supplementary entry is not an observation made at the returned x", "nfs1-supplement", (float(yv[1]), obs[:4]))
        elif len(yv) != nfs:
            run.v("C05", "yval_vec has extra entries", "yval-length", (len(yv), nfs))
        if not np.isclose(r["fval"], np.mean(yv), rtol=1e-12, atol=1e-300):
            run.v("C05", "fval is not the mean of yval_vec", "fval-mean", (r["fval"], float(np.mean(yv))))
        se = [np.std(yv, ddof=d) / np.sqrt(len(yv)) for d in (0, 1)] if len(yv) > 1 else [0.0]
        if len(se) == 2:
            # which convention (population / sample SD) this run is consistent with; a check may pin the convention it
            # measured on runs with several final samples (job['sem_ddof']) so that all runs must follow the same one
            for d_, s_ in enumerate(se):
                if np.isclose(r["fsd"], s_, rtol=1e-12, atol=1e-300):
                    run.stats["sem_match_ddof%d" % d_] += 1
            if run.job.get("sem_ddof") is not None:
                se = [se[int(run.job["sem_ddof"])]]
        if not any(np.isclose(r["fsd"], s_, rtol=1e-12, atol=1e-300) for s_ in se):
            run.v("C05", "fsd is not the standard error of yval_vec", "fsd-sem", (r["fsd"], se))
        if run.mode == "spec":
            sv = r["ysd_vec"]
            if sv is None:
                run.v("C05", "ysd_vec missing under specified noise", "ysd-none", "")
            else:
                sv = np.ravel(sv)
                if not np.array_equal(sv[:nfs], [c["sd"] for c in tail]):
                    run.v("C05", "ysd_vec does not hold the SDs reported for the fresh samples", "ysd-tail", "")
                if nfs == 1:
                    sd_at = [c["sd"] for c in calls[: n - 1] if np.array_equal(c["x"], rx)]
                    if len(sv) != 2 or (sd_at and not (min(sd_at) * (1 - 1e-12) / np.sqrt(len(sd_at)) <= sv[1] <= max(sd_at) * (1 + 1e-12))):
                        run.v("C05", "ysd_vec supplement is not an SD belonging to the returned x", "ysd-supplement", (sv.tolist(), sd_at[:4]))
    else:
        if yv is not None:
            run.v("C05", "yval_vec present although no final samples configured", "yval-not-none", "")


# ---------------------------------------------------------------- C13
def mon_C13(run):
    b = run.bads
    if b is None or not run.probes:
        return
    uo = run.user_opts
    cap = 0
    polls_by_it = {p["it"]: p for p in run.polls}
    kprev = int(uo.get("init_mesh_size_integer", 0))
    expand = int(uo.get("search_mesh_expand", 0) or 0) > 0   # documented option: a successful search round may enlarge the mesh (up to the cap)
    for it, pr in enumerate(run.probes):
        pol = polls_by_it.get(it)
        k = pr["k"]
        if pol is None:
            if k != kprev and not (expand and k > kprev):
                run.v("C13", "mesh size changed outside a poll step", "mesh-changed-outside-poll", (it, kprev, k))
        else:
            if pol["k0"] != kprev and not (expand and pol["k0"] > kprev):
                run.v("C13", "mesh size changed outside a poll step", "mesh-changed-before-poll", (it, kprev, pol["k0"]))
            if pol.get("k1") is not None and pol["k1"] != k and not (expand and k > pol["k1"]):
                run.v("C13", "mesh size changed outside a poll step", "mesh-changed-after-poll", (it, pol["k1"], k))
        if k > cap:
            run.v("C13", "mesh size above the cap", "mesh-above-cap", k)
        if pr["mesh"] != 2.0 ** k:
            # with search_mesh_expand the exponent is raised after a successful search round and the mesh *size* is recomputed
            # from it at the top of the next loop pass: at the probe the size may still be the smaller power of two
            lg = np.log2(pr["mesh"]) if pr["mesh"] > 0 else np.nan
            if not (expand and np.isfinite(lg) and float(lg).is_integer() and lg <= k):
                run.v("C13", "mesh size is not the power of two of its exponent", "mesh-not-pow2", (pr["mesh"], k))
        if pr["smesh"] > pr["mesh"]:
            run.v("C13", "search mesh exceeds poll mesh", "search-mesh-larger", (pr["smesh"], pr["mesh"]))
        kprev = k
    # mesh rule across polls
    tf = uo.get("tol_fun", 1e-3)
    accel = uo.get("accelerate_mesh", True)
    steps = int(uo.get("accelerate_mesh_steps", 3))
    ti, fe, sloppy = float(uo.get("tol_improvement", 1)), float(uo.get("forcing_exponent", 1.5)), uo.get("sloppy_improvement", True)

    def suff_of(mesh):
        s_ = ti * mesh ** fe
        return max(s_, tf) if sloppy else s_

    det = run.mode == "det" and run.script.get("second") is None
    H = b.iteration_history["fval"] if b.iteration_history.get("fval") is not None else []
    vs = [c["val"] for c in run.calls]
    pmm = float(uo.get("poll_mesh_multiplier", 2.0))
    for pol in run.polls:
        # a poll step works on the mesh size that belongs to its exponent (whatever changed the exponent since the last poll)
        if pol["mesh"] != pmm ** pol["k0"]:
            run.v("C13", "poll step runs on a mesh size that is not the power of its exponent", "poll-on-stale-mesh", (pol["mesh"], pol["k0"]))
        if pol.get("k1") is None or pol.get("c1") is None:
            continue
        k0, k1, it = pol["k0"], pol["k1"], pol["iter"]
        if run.exc is not None and pol is run.polls[-1]:
            continue
        if det:
            ys = vs[pol["c0"]: pol["c1"]]
            f0 = pol["fval0"]
            suff = suff_of(pol["mesh"])
            good = bool(ys) and (f0 - min(ys)) > suff
            # the incumbent after the poll: moved by any improvement (sloppy, the default) or only by a sufficient one
            fnow = min(ys) if ys and ((f0 - min(ys)) > 0 if sloppy else good) else f0
            if good:
                exp = min(k0 + 1, cap)
            else:
                exp = k0 - 1
                if accel and it > steps and it - steps < len(H) and H[it - steps] is not None and float(H[it - steps]) - fnow < tf:
                    exp = k0 - 2
            if k1 != exp:
                run.v("C13", "mesh update after a poll does not follow the success/failure rule", "mesh-rule", (k0, k1, exp, it, good))
        else:
            allowed = {min(k0 + 1, cap), k0 - 1}
            if accel and it > steps:
                allowed.add(k0 - 2)
            if k1 not in allowed:
                run.v("C13", "mesh update after a poll is not double/half/quarter", "mesh-rule-noisy", (k0, k1, it))
            # success is judged on GP estimates: recompute it from the estimates the poll itself obtained for the polled
            # points (observed at the improvement seam) against the incumbent estimate at poll entry (default quantile 0.5:
            # improvement = incumbent estimate - estimate at the polled point)
            if pol.get("c1") is not None and (pol["c1"] - pol["c0"]) > 0 and pol.get("n_add", 0) != (pol["c1"] - pol["c0"]):
                run.v("C13", "stochastic target: a polled point was judged without a posterior update (success not judged on the GP estimate)", "poll-judged-on-raw-observation", (pol.get("n_add", 0), pol["c1"] - pol["c0"]))
            elif uo.get("improvement_quantile", 0.5) == 0.5 and not uo.get("stobads") and pol.get("impr") is not None:
                ests = [fn for fb, fn in pol["impr"]]
                # each polled point is judged on the updated surrogate's own prediction there (not on one made before the
                # point was evaluated)
                post = pol.get("post") or []
                if len(post) == len(ests) and all(p_ is not None for p_ in post):
                    for e_, p_ in zip(ests, post):
                        if not np.isclose(e_, p_, rtol=1e-9, atol=1e-12):
                            run.v("C13", "polled point judged on an estimate that is not the updated surrogate's prediction at it", "poll-judged-on-stale-estimate", (e_, p_))
                            break
                suff = suff_of(pol["mesh"])
                good = bool(ests) and (pol["fval0"] - min(ests)) > suff
                if good and k1 != min(k0 + 1, cap):
                    run.v("C13", "poll found a sufficient improvement (on the GP estimates) but the mesh was not doubled", "mesh-rule-noisy-success", (k0, k1, pol["fval0"], min(ests), suff))
                if not good and k1 == min(k0 + 1, cap) and not (k0 == cap and k1 == cap):
                    run.v("C13", "mesh doubled although no polled point improved sufficiently (on the GP estimates)", "mesh-rule-noisy-failure", (k0, k1, pol["fval0"], min(ests) if ests else None, suff))
    if completed(run) and "tol_mesh" in (run.result["message"] or ""):
        tm = uo.get("tol_mesh", 1e-6)
        tmr = 2.0 ** np.ceil(np.log(tm) / np.log(2.0))
        if not run.result["mesh_size"] < tmr:
            run.v("C13", "stopped by mesh tolerance with mesh size not below tol_mesh", "tolmesh-stop", (run.result["mesh_size"], tmr))


# ---------------------------------------------------------------- C14 (run level)
def mon_C14(run):
    b = run.bads
    if b is None:
        return
    D = run.D
    vt = getattr(b, "var_transf", None)
    if vt is None:
        return
    # the search mesh (hence the mesh ratio handed to the direction generator) as the options define it: multiplier ** s with
    # s = min(0, k * search_grid_multiplier - search_grid_number) recomputed from the exponent k at every loop pass (locked,
    # the default), or lowered to that value after every failed poll only (search_size_locked=False)
    uo_ = run.user_opts
    pmm_, sgm_, sgn_ = float(uo_.get("poll_mesh_multiplier", 2.0)), uo_.get("search_grid_multiplier", 2), uo_.get("search_grid_number", 10)
    locked_ = uo_.get("search_size_locked", True)
    ssi_ = None
    for pol in run.polls:
        want_s = min(0, pol["k0"] * sgm_ - sgn_)
        if locked_:
            ssi_ = want_s
        elif ssi_ is None:
            ssi_ = min(0, int(uo_.get("init_mesh_size_integer", 0)) * sgm_ - sgn_)
        if pol.get("smesh") is not None and not uo_.get("search_mesh_expand") and pol["smesh"] != pmm_ ** ssi_:
            run.v("C14", "search mesh (mesh-ratio parameter of the direction generator) is not what the options define", "search-mesh-not-as-configured",
                  (pol["smesh"], pmm_ ** ssi_, pol["k0"]))
        if not locked_ and pol.get("k1") is not None and pol["k1"] < pol["k0"]:
            ssi_ = min(ssi_, pol["k1"] * sgm_ - sgn_)
    for pol in run.polls:
        c0, c1 = pol["c0"], pol.get("c1")
        if c1 is None:
            continue
        pts = run.calls[c0:c1]
        if len(pts) > 2 * D:
            run.v("C14", "more than 2D points polled", "poll-more-than-2D", len(pts))
        if not pts:
            continue
        if pol["B"] is None:
            run.v("C14", "poll evaluated points without generating directions", "poll-no-basis", "")
            continue
        B, scale, u0 = pol["B"], pol["scale"], pol["u0"]
        mesh = float(run.user_opts.get("poll_mesh_multiplier", 2.0)) ** pol["k0"]   # the mesh size *is* the power of its exponent (not a cached copy)
        dirs = B * scale * mesh
        used = []
        for c in pts:
            u = vt(c["x"].reshape(1, -1))[0]
            d = u - u0
            tol = 1e-9 * (1.0 + np.abs(u0).max() + np.abs(dirs).max())
            if run.user_opts.get("force_poll_mesh"):
                tol = max(tol, 0.5 * pol["smesh"] * (1 + 1e-9))  # documented option: poll points are rounded to the (much finer) search mesh
            j = [i for i in range(len(dirs)) if np.all(np.abs(d - dirs[i]) <= tol)]
            if not j:
                run.v("C14", "polled point is not incumbent + mesh*direction", "poll-point-off-direction", (d.tolist(), mesh))
                break
            used.append(j[0])
        if len(set(used)) != len(used):
            run.v("C14", "a poll direction was tried twice", "poll-direction-reused", used)
        # structure of B itself (same oracle as the component check)
        M = B[:D] * scale
        if not np.allclose(B[D:], -B[:D], rtol=0, atol=0):
            run.v("C14", "directions are not +/- pairs", "basis-not-paired", "")
        nmax = max(1, int(np.round(pol["smesh"] / mesh))) if pol.get("smesh") else None
        if not np.allclose(M, np.round(M), atol=1e-9):
            run.v("C14", "direction matrix is not integer", "basis-not-integer", "")
        elif nmax is not None and np.max(np.abs(M)) > nmax + 1e-9:
            run.v("C14", "direction entries exceed the mesh-ratio bound", "basis-entry-bound", (float(np.max(np.abs(M))), nmax))
        elif abs(np.linalg.det(np.round(M))) < 0.5:
            run.v("C14", "direction matrix is singular", "basis-singular", "")
        run.stats["polls_checked"] += 1


# ---------------------------------------------------------------- C17 / C18 run level
def mon_C17r(run):
    # nothing infeasible is handed on for evaluation - the starting point (as snapped to the mesh) included
    if run.consf is not None:
        for c in run.calls:
            if bool(run.consf(c["x"].reshape(1, -1))[0]):
                run.v("C17", "a point violating the non-box constraint was handed on for evaluation", "evaluated-infeasible/%s" % c["phase"], (c["k"], c["x"].tolist()))
                break
    # ... and nothing outside the user's hard box (a candidate that passed the filter in internal coordinates is
    # evaluated at its image in the user's coordinates)
    if getattr(run, "lb", None) is not None:
        for c in run.calls:
            if np.any(c["x"] < run.lb) or np.any(c["x"] > run.ub) or np.any(np.isnan(c["x"])):
                run.v("C17", "a point outside the hard box was handed on for evaluation", "evaluated-outside-box/%s" % c["phase"], (c["k"], c["x"].tolist()))
                break
    if run.mode != "det" or run.script.get("second") is not None:
        return
    cnt = collections.Counter(c["x"].tobytes() for c in run.calls)
    first = run.calls[0]["x"].tobytes() if run.calls else None
    for key, m in cnt.items():
        allowed = 2 if key == first else 1
        if m > allowed:
            ph = [c["phase"] for c in run.calls if c["x"].tobytes() == key]
            run.v("C17", "deterministic target evaluated more than once at the same point", "det-point-repeated/%s" % ph[-1], (m, ph))
            break
    if len(run.calls) >= 2 and first is not None and cnt[first] == 2:
        if run.calls[1]["x"].tobytes() != first:
            pass


def mon_C17box(run):
    """Every point handed on for evaluation lies inside the (internal) hard box: judged on the internal coordinates the
    logger recorded, because the target only ever sees the clamped original-space point."""
    b = run.bads
    if b is None or not hasattr(b, "function_logger") or not hasattr(b, "var_transf"):
        return
    fl, vt = b.function_logger, b.var_transf
    n = fl.Xn + 1
    if n <= 0:
        return
    X = fl.X[:n]
    bad = np.where(np.any(X < vt.lb, axis=1) | np.any(X > vt.ub, axis=1))[0]
    if len(bad):
        run.v("C17", "a point outside the hard box was handed on for evaluation", "evaluated-outside-box", (int(bad[0]), X[bad[0]].tolist()))


def mon_C18r(run):
    for s in run.searches:
        if s.get("c1") is not None and s["c1"] - s["c0"] > 1:
            run.v("C18", "a search step cost more than one target evaluation", "search-cost", s["c1"] - s["c0"])
            break


# ---------------------------------------------------------------- C19 (run level)
RESULT_KEYS = ["x", "x0", "success", "message", "fun", "func_count", "iterations", "target_type",
               "problem_type", "mesh_size", "non_box_cons", "yval_vec", "ysd_vec", "fval", "fsd", "total_time",
               "overhead", "random_seed", "algorithm", "version"]


def mon_C19(run):
    if not completed(run):
        return
    b, r, calls = run.bads, run.result, run.calls
    H = b.iteration_history
    hx = H["x"] if H.get("x") is not None else []
    rx = np.ravel(r["x"])
    found = False
    last = None
    for i in range(len(hx)):
        if hx[i] is None:
            continue
        xi = np.ravel(hx[i])
        last = i
        obs = [c["val"] for c in calls if np.array_equal(c["x"], xi)]
        if not obs:
            run.v("C19", "recorded iterate was never evaluated", "hist-x-not-evaluated", (i, xi.tolist()))
            continue
        yv = float(H["yval"][i])
        ok = (yv in obs) if run.mode != "spec" else (min(obs) - 1e-12 <= yv <= max(obs) + 1e-12)
        if not ok:
            run.v("C19", "recorded observed value was not observed at the recorded x", "hist-yval-not-observed", (i, yv, obs[:4]))
        if np.array_equal(xi, rx):
            found = True
    if not found:
        run.v("C19", "returned x is not one of the recorded iterates", "result-not-an-iterate", rx.tolist())
    fc = [v for v in (H["func_count"] if H.get("func_count") is not None else []) if v is not None]
    if any(fc[i + 1] < fc[i] for i in range(len(fc) - 1)):
        run.v("C19", "recorded func_count decreases", "hist-funccount-decreases", fc[:10])
    if fc and fc[-1] > r["func_count"]:
        run.v("C19", "recorded func_count exceeds the final count", "hist-funccount-exceeds", (fc[-1], r["func_count"]))
    if run.mode == "det" and run.script.get("second") is None and last is not None:
        if not np.array_equal(np.ravel(hx[last]), rx):
            run.v("C19", "deterministic result is not the last recorded iterate", "det-result-not-last", "")
        elif float(H["fval"][last]) != r["fval"]:
            run.v("C19", "last recorded value differs from the returned fval", "det-last-fval", (H["fval"][last], r["fval"]))
    # fixed field set
    if sorted(dict.keys(r)) != sorted(RESULT_KEYS):
        run.v("C19", "OptimizeResult field set differs from the documented one", "result-keys", sorted(set(dict.keys(r)) ^ set(RESULT_KEYS)))
    for k in RESULT_KEYS:
        try:
            a = r[k]
            bb_ = getattr(r, k)
        except Exception as e:  # noqa
            run.v("C19", "result field not readable by key and attribute", "result-access/%s" % k, repr(e))
            continue
    # agreement with the problem and the final state
    x0 = P.start_point(run.job.get("x0", "in"), run.geo, run.D)
    if x0 is not None:
        xr = np.ravel(r["x0"])
        lbm, ubm = run.lb, run.ub
        w = np.where(np.isfinite(ubm - lbm), ubm - lbm, 1e3)
        inner = np.maximum(np.minimum(np.ravel(x0), ubm - 1e-3 * w), lbm + 1e-3 * w)
        if not (np.array_equal(xr, np.ravel(x0)) or np.allclose(xr, inner, rtol=1e-12, atol=1e-12)):
            run.v("C19", "result.x0 differs from the starting point of the problem", "result-x0", (xr.tolist(), np.ravel(x0).tolist()))
    pt = "non-box constraints" if run.consf is not None else ("unconstrained" if run.geo == "unb" else "bound constraints")
    if r["problem_type"] != pt:
        run.v("C19", "problem_type disagrees with the problem", "result-problem-type", (r["problem_type"], pt))
    noisy = (run.mode != "det") or False
    if run.script.get("second") is not None:
        noisy = None
    if noisy is not None:
        want = {"det": "deterministic", "auto": "stochastic", "decl": "stochastic", "spec": "stochastic (specified noise)"}[run.mode]
        if r["target_type"] != want:
            run.v("C19", "target_type disagrees with the problem", "result-target-type", (r["target_type"], want))
    if r["random_seed"] != run.user_opts.get("random_seed"):
        run.v("C19", "random_seed disagrees with the options", "result-seed", r["random_seed"])
    if r["func_count"] != len(calls):
        run.v("C19", "func_count disagrees with the true number of calls", "result-funccount", (r["func_count"], len(calls)))
    if run.probes and run.probes[-1]["fin"]:
        if r["mesh_size"] != run.probes[-1]["mesh"]:
            run.v("C19", "mesh_size disagrees with the final state", "result-meshsize", (r["mesh_size"], run.probes[-1]["mesh"]))


# ---------------------------------------------------------------- C19 copy isolation
def _snapshot_result(r):
    import copy

    out = {}
    for k in dict.keys(r):
        if k in ("fun", "non_box_cons"):
            continue
        out[k] = copy.deepcopy(dict.__getitem__(r, k))
    return out


def _same(a, b):
    if isinstance(a, np.ndarray) or isinstance(b, np.ndarray):
        return isinstance(a, np.ndarray) and isinstance(b, np.ndarray) and a.shape == b.shape and np.array_equal(a, b, equal_nan=True)
    if isinstance(a, float) and isinstance(b, float) and np.isnan(a) and np.isnan(b):
        return True
    return a == b


def _mutate_arrays(obj, seen, depth=0):
    """In-place perturbation of every float ndarray reachable from obj (attributes, dicts, lists)."""
    if id(obj) in seen or depth > 4:
        return 0
    seen.add(id(obj))
    n = 0
    if isinstance(obj, np.ndarray):
        if obj.dtype.kind == "f" and obj.flags.writeable and obj.size:
            obj += 1.2345
            return 1
        if obj.dtype == object:
            for v in obj.ravel():
                n += _mutate_arrays(v, seen, depth + 1)
        return n
    if isinstance(obj, dict):
        for v in list(dict.values(obj)):
            n += _mutate_arrays(v, seen, depth + 1)
        return n
    if isinstance(obj, (list, tuple)):
        for v in obj:
            n += _mutate_arrays(v, seen, depth + 1)
        return n
    return n


def mon_C19iso(run):
    if not completed(run):
        return
    b, r = run.bads, run.result
    snap = _snapshot_result(r)
    seen = {id(r)}
    n = 0
    for name in ("u", "u_best", "x", "x0", "lower_bounds", "upper_bounds", "plausible_lower_bounds", "plausible_upper_bounds", "optim_state", "iteration_history"):
        if hasattr(b, name):
            n += _mutate_arrays(getattr(b, name), seen)
    fl = b.function_logger
    for name in ("X", "X_orig", "Y", "Y_orig", "S"):
        if hasattr(fl, name):
            n += _mutate_arrays(getattr(fl, name), seen)
    run.stats["iso_arrays_mutated"] += n
    for k, v in snap.items():
        if not _same(dict.__getitem__(r, k), v):
            run.v("C19", "result field changed when the optimiser's arrays were modified afterwards", "result-aliased/%s" % k, "")
    if run.job.get("rerun"):
        try:
            b.optimize()
        except BaseException:  # noqa  (whatever the second run does is not judged)
            pass
        for k, v in snap.items():
            if not _same(dict.__getitem__(r, k), v):
                run.v("C19", "result field changed by a later optimize() on the same instance", "result-changed-by-rerun/%s" % k, "")
