"""Shared alphabets (DESIGN §3): geometries, start points, constraint family, targets.

Everything here is a *pure function of the job description*, so an execution can be replayed from
its job dict alone.
"""
import math

import numpy as np

GEOS = ("lin", "tight", "log", "mixed", "unb", "log2", "lin2", "mixunb", "log3")
MODES = ("det", "auto", "decl", "spec")
ANS = ("F", "I", "S", "E", "T")  # default first; T = improvement exactly equal to the sufficient-improvement threshold
NOISE = ("alt", "LOW", "HIGH")
SIGMA = 0.5


def geometry(geo, D):
    """-> lb, ub, plb, pub (1-D float arrays) and the per-coordinate log flags the statement implies."""
    lb = np.empty(D)
    ub = np.empty(D)
    plb = np.empty(D)
    pub = np.empty(D)
    logc = np.zeros(D, bool)
    for i in range(D):
        g = geo
        if geo == "mixed":
            g = "log" if i == 0 else "lin"
        if geo == "mixunb":   # a log-scaled variable next to variables with infinite hard bounds
            g = "log2" if i == 0 else "unb"
        if g == "lin":
            lb[i], ub[i], plb[i], pub[i] = -5.0, 5.0, -2.0, 2.0
        elif g == "tight":
            lb[i], ub[i], plb[i], pub[i] = -5.0, 5.0, -5.0, 5.0
        elif g == "log":
            lb[i], ub[i], plb[i], pub[i] = 1e-3, 1e3, 1e-2, 1e2
            logc[i] = True
        elif g == "unb":
            lb[i], ub[i], plb[i], pub[i] = -np.inf, np.inf, -2.0, 2.0
        elif g == "log2":  # decade bounds whose images lie exactly on the search grid (rounding at the bound matters)
            lb[i], ub[i], plb[i], pub[i] = 0.01, 10.0, 0.1, 1.0
            logc[i] = True
        elif g == "log3":  # log-scaled with a lower bound above 1
            lb[i], ub[i], plb[i], pub[i] = 10.0, 1000.0, 20.0, 500.0
            logc[i] = True
        elif g == "lin2":  # hard bounds that are not multiples of the search mesh
            lb[i], ub[i], plb[i], pub[i] = -3.3, 4.1, -3.0, 4.0
        else:
            raise ValueError(geo)
    return lb, ub, plb, pub, logc


def start_point(x0kind, geo, D):
    lb, ub, plb, pub, logc = geometry(geo, D)
    if x0kind == "absent":
        return None
    if isinstance(x0kind, (list, tuple)):
        return np.array(x0kind, float).reshape(1, D)
    x = np.empty(D)
    base_lin = [1.0, -0.5, 0.75, 0.25, -1.25]
    base_log = [5.0, 0.5, 20.0, 2.0, 0.05] if geo not in ("log2", "mixunb") else [0.5, 0.3, 2.0, 0.7, 0.2]
    if geo == "log3":
        base_log = [100.0, 50.0, 200.0, 30.0, 400.0]
    for i in range(D):
        if x0kind == "in":
            x[i] = base_log[i % 5] if logc[i] else base_lin[i % 5]
        elif x0kind == "lb":
            x[i] = lb[i] if np.isfinite(lb[i]) else base_lin[i % 5]
        elif x0kind == "ub":
            x[i] = ub[i] if np.isfinite(ub[i]) else base_lin[i % 5]
        elif x0kind in ("near_ub", "near_lb", "near_ub3", "near_lb3"):
            # just beyond the 0.1% margin inside which a start is moved (0.12% / 0.3% of the range away from the bound)
            f = 0.0012 if not x0kind.endswith("3") else 0.003
            if not (np.isfinite(lb[i]) and np.isfinite(ub[i])):
                x[i] = base_lin[i % 5]
            elif "ub" in x0kind:
                x[i] = ub[i] - f * (ub[i] - lb[i])
            else:
                x[i] = lb[i] + f * (ub[i] - lb[i])
        else:
            raise ValueError(x0kind)
    return x.reshape(1, D)


def to_z(X, logc):
    """log10 on log coordinates: natural landscapes are quadratic in these."""
    X = np.atleast_2d(np.asarray(X, float))
    Z = X.copy()
    if logc.any():
        Z[:, logc] = np.log10(np.maximum(X[:, logc], 1e-300))
    return Z


def landscape_centre(kind, geo, D):
    lb, ub, plb, pub, logc = geometry(geo, D)
    zl = np.where(logc, np.log10(np.where(logc, lb, 1.0)), lb)
    zu = np.where(logc, np.log10(np.where(logc, ub, 1.0)), ub)
    zl = np.where(np.isfinite(zl), zl, -5.0)
    zu = np.where(np.isfinite(zu), zu, 5.0)
    mid = 0.5 * (zl + zu)
    w = zu - zl
    if kind in ("sphere_in", "l1", "plateau"):
        return mid + 0.03 * w * np.array([1.0, -2.0, 3.0, -1.0, 2.0])[np.arange(D) % 5]
    if kind == "sphere_face":
        c = mid + 0.03 * w
        c[0] = zu[0]
        return c
    if kind == "sphere_corner":
        return zu.copy()
    if kind == "sphere_out":
        return zu + 0.3 * w
    if kind == "sphere_below":
        return zl - 0.3 * w
    if kind == "sphere_pcentre":   # minimiser exactly at the centre of the plausible box = the origin of the internal coordinates
        pl = np.where(logc, np.log10(np.where(logc, plb, 1.0)), plb)
        pu = np.where(logc, np.log10(np.where(logc, pub, 1.0)), pub)
        return 0.5 * (pl + pu)
    raise ValueError(kind)


def geo_value(kind, geo, D, x):
    if kind == "const":
        return 1.0
    if kind == "sphere_big":
        return 1e8 * geo_value("sphere_in", geo, D, x)
    if kind == "sphere_small":
        return 1e-8 * geo_value("sphere_in", geo, D, x)
    if kind == "sphere_tiny":   # value differences far below tol_noise (2.2e-19 by default)
        return 1e-21 * geo_value("sphere_in", geo, D, x)
    lb, ub, plb, pub, logc = geometry(geo, D)
    z = to_z(x, logc)[0]
    c = landscape_centre(kind, geo, D)
    if kind.startswith("sphere"):
        return float(np.sum((z - c) ** 2))
    if kind == "l1":
        return float(np.sum(np.abs(z - c)))
    if kind == "plateau":
        return float(np.floor(4.0 * np.sum((z - c) ** 2)) / 4.0)
    raise ValueError(kind)


# ---------------------------------------------------------------- constraints
def constraint(cons, geo, D, x0=None):
    """Pure vectorised violation function (True = violated) on original coordinates, or None."""
    if cons is None:
        return None
    lb, ub, plb, pub, logc = geometry(geo, D)
    islog = bool(logc[0])
    if isinstance(cons, (list, tuple)):
        name, par = cons[0], list(cons[1:])
    else:
        name, par = cons, []
    nanv = name.endswith("_n")  # NaN variant: the (real-valued) constraint is undefined (NaN) where coordinate 0 is below its start value - 0.9
    if nanv:
        inner = constraint([name[:-2] + "_r"] + par, geo, D)
        x00 = float(start_point("in", geo, D)[0, 0])

        def fn(X):
            X = np.atleast_2d(np.asarray(X, float))
            v = np.asarray(inner(X), float).copy()
            v[X[:, 0] < x00 - 0.9] = np.nan
            return v

        return fn
    col = name.endswith("_c")   # column-vector variant: returns an (N, 1) array (the shape the library's own message asks for)
    if col:
        inner = constraint([name[:-2]] + par, geo, D)
        return lambda X: np.asarray(inner(X)).reshape(-1, 1)
    real = name.endswith("_r")  # real-valued variant: returns the amount of violation (> 0 = violated)
    if real:
        name = name[:-2]
    if name == "half":
        c = par[0] if par else (60.0 if islog else 3.0)

        def f(X):
            X = np.atleast_2d(np.asarray(X, float))
            s = X[:, 0] + (X[:, 1] if X.shape[1] > 1 else 0.0)
            return (s - c) if real else (s > c)

    elif name == "ball":
        r = par[0] if par else {"log": 200.0, "mixed": 200.0, "log2": 6.0, "lin2": 3.5}.get(geo, 4.0)

        def f(X):
            X = np.atleast_2d(np.asarray(X, float))
            n2 = np.sum(X**2, axis=1)
            return (n2 - r * r) * (0.05 if real else 1.0) if real else (n2 > r * r)

    elif name == "annulus":
        r1, r2 = par if par else {"log": (0.2, 300.0), "mixed": (0.2, 300.0), "log2": (0.15, 7.0), "lin2": (0.4, 3.8)}.get(geo, (0.4, 4.5))

        def f(X):
            X = np.atleast_2d(np.asarray(X, float))
            n2 = np.sum(X**2, axis=1)
            return np.maximum(r1 * r1 - n2, n2 - r2 * r2) * 0.05 if real else ((n2 < r1 * r1) | (n2 > r2 * r2))

    elif name == "slab":
        a = par[0]
        w = par[1] if len(par) > 1 else 1e-9

        def f(X):
            X = np.atleast_2d(np.asarray(X, float))
            return np.abs(X[:, 0] - a) > w * max(1.0, abs(a))

    elif name == "halfax":
        # axis-aligned half-space: violated iff sign * (x[axis] - c) > 0
        ax, sg, c = int(par[0]), float(par[1]), float(par[2])

        def f(X):
            X = np.atleast_2d(np.asarray(X, float))
            return sg * (X[:, ax] - c) > 0

    elif name == "notpoint":
        p = np.array(par, float)

        def f(X):
            X = np.atleast_2d(np.asarray(X, float))
            return np.all(X == p, axis=1)

    else:
        raise ValueError(cons)
    return f


def base_options(mode, seed, extra=None):
    o = {"display": "off", "random_seed": int(seed)}
    if mode in ("decl", "spec"):
        o["uncertainty_handling"] = True
    if mode == "spec":
        o["specify_target_noise"] = True
    if extra:
        o.update(extra)
    return o


def reported_sd(x):
    """SD a specified-noise target reports at x: a fixed, bounded, positive function of x."""
    nrm = float(np.sqrt(np.sum(np.asarray(x, float) ** 2)))
    return SIGMA * (1.0 + 0.5 * math.tanh(nrm / 10.0))


def noise_class_value(cls, k):
    if cls == "alt":
        return 1.0 if k % 2 == 0 else -1.0
    if cls == "LOW":
        return -5.0
    if cls == "HIGH":
        return 5.0
    raise ValueError(cls)


def default_ans(base, k):
    """Default answer class of the adversarial target at call k under a base policy."""
    if base == "F":
        return "F"
    if base == "I":
        return "I"
    if base == "S4":
        return "S" if k % 4 == 0 else "F"
    if base in ("S", "S2", "S3"):   # success-rich policies keep the mesh at its cap (overflow bookkeeping)
        return "S" if k % {"S": 1, "S2": 2, "S3": 3}[base] == 0 else "F"
    if base == "E3":
        return "E" if k % 3 == 0 else "F"
    raise ValueError(base)


def half_for(x0kind, geo, D, real=False):
    """A half-space x0+x1 <= c that keeps the given start (or any start drawn in the plausible box) feasible
    while cutting off part of the box."""
    lb, ub, plb, pub, logc = geometry(geo, D)
    x0 = start_point(x0kind, geo, D)
    if x0 is None:
        s = float(pub[0] + (pub[1] if D > 1 else 0.0))
    else:
        s = float(x0[0, 0] + (x0[0, 1] if D > 1 else 0.0))
    rng = ub - lb
    rng = np.where(np.isfinite(rng), rng, 0.0)
    slack = 0.7 + 2.5e-3 * float(rng[0] + (rng[1] if D > 1 else 0.0))  # a start on a bound is moved 0.1% inside
    return [{True: "half_r", "col": "half_c", "nan": "half_n"}.get(real, "half"), s + slack]
