"""M1 binding: run TLC on models/BadsLoop.tla, read its labelled state graph, enumerate model paths,
and let TLC judge implementation traces with the *same* StepC operator (ASSUME over constants)."""
import os
import re
import shutil
import subprocess
import tempfile

from .common import VERIF, HarnessError

MODEL = os.path.join(VERIF, "models", "BadsLoop.tla")
CONST_ORDER = ["D", "NTry", "N0", "NP0", "MaxFE", "MaxIter", "TolK", "Cap", "TSI", "AccSteps", "Accel", "CompletePoll", "Free", "KeepLab"]
INVARIANTS = ["Budget", "Iters", "MeshCap", "SearchLE", "MsgTrue", "MeshFloor"]


def tla(v):
    if isinstance(v, bool):
        return "TRUE" if v else "FALSE"
    if isinstance(v, int):
        return str(v)
    if isinstance(v, str):
        return '"%s"' % v
    if isinstance(v, dict):
        return "[" + ", ".join("%s |-> %s" % (k, tla(x)) for k, x in v.items()) + "]"
    if isinstance(v, (list, tuple)):
        return "<<" + ", ".join(tla(x) for x in v) + ">>"
    raise TypeError(type(v))


def write_cfg(path, const, invariants=(), prop=None):
    with open(path, "w") as f:
        f.write("CONSTANTS\n")
        for k in CONST_ORDER:
            f.write("  %s = %s\n" % (k, tla(const[k])))
        f.write("SPECIFICATION Spec\n")
        if invariants:
            f.write("INVARIANTS %s\n" % " ".join(invariants))
        if prop:
            f.write("PROPERTY %s\n" % prop)
        f.write("CHECK_DEADLOCK FALSE\n")


def run_tlc(const, invariants=INVARIANTS, liveness=True, dump=False, workers=4, extra_module=None, timeout=3600):
    """-> dict(ok, states, generated, depth, out, dot (text or None), errors)."""
    tmp = tempfile.mkdtemp(prefix="tlc_", dir=os.environ.get("VERIF_TMP", "/tmp"))
    try:
        shutil.copy(MODEL, os.path.join(tmp, "BadsLoop.tla"))
        root = "BadsLoop"
        if extra_module is not None:
            name, text = extra_module
            with open(os.path.join(tmp, name + ".tla"), "w") as f:
                f.write(text)
            root = name
        cfg = os.path.join(tmp, root + ".cfg")
        write_cfg(cfg, const, invariants, "Terminates" if liveness else None)
        cmd = ["tlc", "-workers", str(1 if dump else workers), "-noGenerateSpecTE", "-metadir", os.path.join(tmp, "md"),
               "-config", cfg]
        if dump:
            cmd += ["-dump", "dot,actionlabels", os.path.join(tmp, "graph")]
        cmd.append(os.path.join(tmp, root + ".tla"))
        env = dict(os.environ)
        env["JAVA_TOOL_OPTIONS"] = env.get("JAVA_TOOL_OPTIONS", "") + " -Xmx4g"
        p = subprocess.run(cmd, capture_output=True, text=True, cwd=tmp, timeout=timeout, env=env)
        out = p.stdout + p.stderr
        m = re.search(r"^(\d+) states generated, (\d+) distinct states found, 0 states left on queue", out, re.M)
        d = re.search(r"depth of the complete state graph search is (\d+)", out)
        ok = ("Model checking completed. No error has been found." in out) and m is not None
        errors = [l for l in out.splitlines() if re.search(r"Error:|is violated|Assumption .* is false|Temporal properties were violated", l)]
        dot = None
        if dump:
            gp = os.path.join(tmp, "graph.dot")
            if os.path.exists(gp):
                with open(gp) as f:
                    dot = f.read()
        return dict(ok=ok, generated=int(m.group(1)) if m else 0, states=int(m.group(2)) if m else 0,
                    depth=int(d.group(1)) if d else 0, out=out, dot=dot, errors=errors)
    finally:
        shutil.rmtree(tmp, ignore_errors=True)


# ------------------------------------------------------------------ dot graph
def _rec(text):
    """TLA record text (from the dot dump) -> python dict."""
    t = text.replace("\\n", " ").replace('\\"', '"').replace("\\\\", "\\")
    t = t.replace("<<", "[").replace(">>", "]")
    t = re.sub(r"\bTRUE\b", "True", t)
    t = re.sub(r"\bFALSE\b", "False", t)
    t = re.sub(r"(\w+)\s*\|->", r'"\1":', t)
    t = t.strip()
    assert t.startswith("[") and t.endswith("]"), t
    return eval("{" + t[1:-1] + "}", {"__builtins__": {}}, {})


def parse_dot(dot):
    nodes, edges, init = {}, {}, None
    for line in dot.splitlines():
        m = re.match(r'^(-?\d+) \[label="(.*?)"(,tooltip=".*")?(,style = filled)?\];?$', line)
        if m:
            nid = m.group(1)
            lab = m.group(2)
            mm = re.match(r"^/\\\\ lab = (\[.*?\])\\n/\\\\ st = (\[.*\])$", lab)
            if not mm:
                raise HarnessError("cannot parse dot node: %s" % lab[:200])
            nodes[nid] = dict(lab=_rec(mm.group(1)), st=_rec(mm.group(2)))
            if "style = filled" in line:
                init = nid
            continue
        m = re.match(r"^(-?\d+) -> (-?\d+) \[label=", line)
        if m:
            edges.setdefault(m.group(1), [])
            if m.group(2) not in edges[m.group(1)]:
                edges[m.group(1)].append(m.group(2))
    if init is None:
        raise HarnessError("no initial node in dot dump")
    return nodes, edges, init


def all_paths(nodes, edges, init, cap=None):
    """Every path init -> fin state (the driven graph is a DAG: fc or polls or k strictly progress)."""
    out = []
    stack = [(init, [init])]
    capped = False
    while stack:
        n, path = stack.pop()
        if nodes[n]["st"]["fin"]:
            out.append(path)
            if cap is not None and len(out) >= cap:
                capped = True
                break
            continue
        for m in edges.get(n, []):
            if m == n:
                continue
            stack.append((m, path + [m]))
    return out, capped


def edge_cover_paths(nodes, edges, init):
    """A set of init->fin paths covering every edge (greedy: BFS tree to the edge, then any completion)."""
    from collections import deque

    pred = {init: None}
    dq = deque([init])
    while dq:
        n = dq.popleft()
        for m in edges.get(n, []):
            if m not in pred:
                pred[m] = n
                dq.append(m)

    def to(n):
        p = []
        while n is not None:
            p.append(n)
            n = pred[n]
        return p[::-1]

    def complete(n, covered):
        p = []
        while not nodes[n]["st"]["fin"]:
            succ = [m for m in edges.get(n, []) if m != n]
            if not succ:
                break
            nxt = None
            for m in succ:
                if (n, m) not in covered:
                    nxt = m
                    break
            if nxt is None:
                nxt = succ[0]
            covered.add((n, nxt))
            p.append(nxt)
            n = nxt
        return p

    covered = set()
    paths = []
    for a in list(edges):
        for b in edges[a]:
            if a == b or (a, b) in covered or a not in pred:
                continue
            pre = to(a)
            for i in range(len(pre) - 1):
                covered.add((pre[i], pre[i + 1]))
            covered.add((a, b))
            paths.append(pre + [b] + complete(b, covered))
    return paths


# ------------------------------------------------------------------ trace validation
def trace_module(name, traces):
    """traces: list of dict(c=cfg record, steps=[dict(s,l,t)...]).  TLC evaluates Bad at start-up."""
    lines = ["---- MODULE %s ----" % name, "EXTENDS BadsLoop", "Traces == <<"]
    lines.append(",\n".join("  [c |-> %s, steps |-> %s]" % (tla(t["c"]), tla(t["steps"])) for t in traces))
    lines.append(">>")
    lines.append("BadStep == {<<i, j>> \\in UNION {{<<ii, jj>> : jj \\in 1..Len(Traces[ii].steps)} : ii \\in 1..Len(Traces)} :")
    lines.append("              ~StepC(Traces[i].c, Traces[i].steps[j].s, Traces[i].steps[j].l, Traces[i].steps[j].t)}")
    lines.append("BadInit == {i \\in 1..Len(Traces) : Len(Traces[i].steps) > 0 /\\ Traces[i].steps[1].s # InitStateC(Traces[i].c)}")
    lines.append("BadChain == {<<i, j>> \\in UNION {{<<ii, jj>> : jj \\in 2..Len(Traces[ii].steps)} : ii \\in 1..Len(Traces)} :")
    lines.append("              Traces[i].steps[j].s # Traces[i].steps[j-1].t}")
    lines.append('ASSUME PrintT(<<"BADSTEP", BadStep>>) /\\ PrintT(<<"BADINIT", BadInit>>) /\\ PrintT(<<"BADCHAIN", BadChain>>)')
    lines.append("====")
    return "\n".join(lines) + "\n"


TINY = dict(D=1, NTry=3, N0=4, NP0=2, MaxFE=4, MaxIter=1, TolK=1, Cap=0, TSI=4, AccSteps=3, Accel=True,
            CompletePoll=False, Free=True, KeepLab=False)


def validate_traces(traces, name="TraceCheck"):
    """-> (bad_steps [(i,j)], bad_init [i], bad_chain [(i,j)]) with 0-based indices."""
    if not traces:
        return [], [], []
    r = run_tlc(TINY, invariants=(), liveness=False, extra_module=(name, trace_module(name, traces)), workers=1)
    out = r["out"]

    def grab(tag):
        m = re.search(r'<<\s*"%s",\s*(\{.*?\})\s*>>' % tag, out, re.S)
        if not m:
            raise HarnessError("TLC trace validation produced no %s line:\n%s" % (tag, out[-1500:]))
        return m.group(1)

    def pairs(s):
        return [(int(a) - 1, int(b) - 1) for a, b in re.findall(r"<<(\d+), (\d+)>>", s)]

    bs = pairs(grab("BADSTEP"))
    bi = [int(x) - 1 for x in re.findall(r"\d+", grab("BADINIT"))]
    bc = pairs(grab("BADCHAIN"))
    return bs, bi, bc
