"""E1 execution harness: one real BADS(...).optimize() under seams, scripted environment answers,
fault injection and run-level monitors.  `execute(job)` is a pure function of `job`.

job keys (all JSON-serialisable):
  D, geo, x0 ('in'|'lb'|'ub'|'absent'|[...]), mode, cons (None|name|[name,par...]),
  target ('adv'|'sphere_in'|'sphere_face'|'sphere_corner'|'sphere_out'|'l1'|'plateau'),
  base ('F'|'I'|'S4'|'E3')   default answer policy of the adversarial target,
  script: {'ans': {k: cls}, 'noise': {k: cls}, 'fit': [j..], 'pred': [j..], 'fault': [k, kind],
           'second': delta, 'phase': [{search: cls, poll: [cls..]}, ...], 'hedge': [draw,...]}
  opts: user options, seed, monitors: list of property ids whose run-level monitors to apply,
  seams: bool (install the observation seams for C14/C15/C17/C18)
"""
import collections
import copy
import os
import sys

import numpy as np

from . import problems as P
from .common import HarnessError, exc_signature


class NonProgress(Exception):
    pass


class Horizon(Exception):
    pass


class InjectedTargetError(KeyError):
    """Custom exception type raised by the C10 fault injector."""


class Boom(RuntimeError):
    pass


class NoArgsError(Exception):
    """An exception raised without arguments (like a bare assert or `raise MyError`)."""


def _mods():
    import gpyreg
    import pybads.bads.bads as bb
    import pybads.bads.gaussian_process_train as gpt
    import pybads.search.es_search as es

    sh = sys.modules["pybads.search.search_hedge"]
    return bb, es, sh, gpt, gpyreg


class _TargetObject:
    """A callable *object* as target that cannot be deep-copied (holds a lock, like an open handle would)."""

    def __init__(self, f):
        import threading

        self.f = f
        self.lock = threading.Lock()

    def __call__(self, x):
        return self.f(x)


class Patch:
    """Rebinding table; missing seam => HarnessError; restored in reverse order."""

    def __init__(self):
        self.undo = []

    def set(self, obj, name, new):
        if not hasattr(obj, name):
            raise HarnessError("missing seam %r on %r" % (name, obj))
        old = obj.__dict__[name] if name in getattr(obj, "__dict__", {}) else getattr(obj, name)
        self.undo.append((obj, name, old))
        setattr(obj, name, new)
        return old

    def restore(self):
        for obj, name, old in reversed(self.undo):
            setattr(obj, name, old)
        self.undo = []


FAULT_KINDS = ["raise_rt", "raise_key", "raise_noargs", "raise_intarg", "raise_stopiter", "cplx0", "npcplx0", "nan", "pinf", "ninf", "cplx", "vec", "list3", "tuple2", "none", "str", "hugeint", "ldinf"]
FAULT_KINDS_SPEC = ["notuple", "tuple3", "sd0", "sdneg", "sdnan", "sdinf", "sdnone", "sdcplx0", "sdstr", "sdhuge", "sdvec", "sdldzero"]


class Run:
    def __init__(self, job):
        self.job = job
        self.D = job["D"]
        self.geo = job.get("geo", "lin")
        self.mode = job.get("mode", "det")
        self.script = job.get("script") or {}
        self.calls = []  # dict(k,x,val,sd,phase,it)
        self.cons_calls = []
        self.choice_points = []
        self.probes = []
        self.polls = []
        self.searches = []
        self.viol = []  # (prop, clause, key, detail)
        self.stats = collections.Counter()
        self.phase = "construct"
        self.loop_it = 0
        self.poll_idx = 0
        self.m = None
        self.seen = {}
        self.fit_count = 0
        self.pred_count = 0
        self.in_target_pred = False
        self.fit_sites = []
        self.n_init = None
        self.np_init = None
        self.no_progress = 0
        self.last_calls_at_probe = 0
        self.polled_since_probe = False
        self.search_status = None
        self.search_called = False
        self.es_holder = None
        self.cur_poll = None
        self.n_S = 0
        self.bads = None
        self.result = None
        self.exc = None
        self.exc_sig = None
        self.injected = None
        self.first_val = None
        self.hedge_draws = 0
        self.repeat_in_loop = 0
        self.step_u0 = None
        self.last_fit_centre = None

    def v(self, prop, clause, key, detail=""):
        self.viol.append((prop, clause, key, str(detail)[:400]))


# ------------------------------------------------------------------ target
def make_target(run):
    job, script = run.job, run.script
    D, geo, mode = run.D, run.geo, run.mode
    tkind = job.get("target", "adv")
    base = job.get("base", "F")
    ans = {int(k): v for k, v in (script.get("ans") or {}).items()}
    noise = {int(k): v for k, v in (script.get("noise") or {}).items()}
    fault = script.get("fault")
    phase_script = script.get("phase")
    second = script.get("second")

    def default_ans(k):
        return P.default_ans(base, k)

    def adv_value(k, key):
        if run.m is None:
            return 100.0
        if key in run.seen:
            if run.phase in ("search", "poll"):
                run.repeat_in_loop += 1  # the script cannot choose this answer: f must stay a function of x
                if run.phase == "poll":
                    run.poll_idx += 1
            return run.seen[key]
        if phase_script is not None:
            a = "F"
            it = run.loop_it
            if it < len(phase_script):
                if run.phase == "search":
                    a = phase_script[it].get("search", "F")
                elif run.phase == "poll":
                    pl = phase_script[it].get("poll", [])
                    a = pl[run.poll_idx] if run.poll_idx < len(pl) else "F"
            if run.phase == "poll":
                run.poll_idx += 1
        else:
            run.choice_points.append(("ans", k, len(P.ANS)))
            a = ans.get(k, default_ans(k))
        if a == "S":
            run.n_S += 1
        if a == "T":
            # improvement exactly equal to the sufficient-improvement threshold of the step in progress
            mesh = run.cur_poll["mesh"] if run.cur_poll is not None else (run.probes[-1]["mesh"] if run.probes else 1.0)
            uo = run.user_opts
            tf = float(uo.get("tol_fun", 1e-3))
            s_ = float(uo.get("tol_improvement", 1)) * mesh ** float(uo.get("forcing_exponent", 1.5))
            return run.m - (max(s_, tf) if uo.get("sloppy_improvement", True) else s_)
        return {"S": run.m - 2.0, "I": run.m - 1e-9, "F": run.m + 1.0, "E": run.m}[a]

    def f(x):
        xx = np.array(x, dtype=float, copy=True).ravel()
        if job.get("mutate_arg") and isinstance(x, np.ndarray) and x.flags.writeable:
            x[...] = 1.0e9  # a target that scribbles over its argument must not corrupt the optimiser's own record of the point
        k = len(run.calls)
        key = xx.tobytes()
        sd = None
        if tkind == "adv":
            val = adv_value(k, key)
        else:
            val = P.geo_value(tkind, geo, D, xx)
        if mode != "det":
            if tkind == "adv":
                raise HarnessError("adversarial target is deterministic-mode only")
            run.choice_points.append(("noise", k, len(P.NOISE)))
            c = P.noise_class_value(noise.get(k, "alt"), k)
            sd = P.reported_sd(xx) * float(job.get("sd_scale", 1.0))   # sd_scale: very small (but valid) reported SDs
            val = val + sd * c * float(job.get("noise_scale", 1.0))  # noise_scale 0: the reported SD is positive but nothing is added
        if second is not None and k == 1:
            val = run.first_val + second
        if k == 0:
            run.first_val = val
        rec = dict(k=k, x=xx, val=val, sd=sd, phase=run.phase, it=run.loop_it, fault=None)
        run.calls.append(rec)
        if tkind == "adv":
            run.seen.setdefault(key, val)
            run.m = val if run.m is None else min(run.m, val)
        vt_ = job.get("val_type")
        if vt_ and mode == "det":
            # integer-valued landscape returned as a NumPy / Python numeric type other than float
            ival = int(round(10.0 * val)) + 3
            rec["val"] = float(ival)
            if tkind == "adv":
                raise HarnessError("val_type needs a natural landscape")
            if vt_ == "hugeint":   # a Python int beyond int64 is still a finite real scalar
                rec["val"] = float(ival * 2 ** 70)
                return ival * 2 ** 70
            if vt_ == "fraction":
                import fractions
                return fractions.Fraction(ival, 1)
            typed = {"uint64": np.uint64, "int64": np.int64, "int32": np.int32, "float32": np.float32, "int": int, "uint8": np.uint8}[vt_]
            if vt_ == "uint8":
                ival = min(ival, 250)
                rec["val"] = float(ival)
            return typed(ival)
        if fault is not None and int(fault[0]) == k:
            kind = fault[1]
            rec["fault"] = kind
            run.injected = kind
            if kind == "raise_rt":
                raise Boom("injected at call %d" % k)
            if kind == "raise_key":
                raise InjectedTargetError("injected at call %d" % k)
            if kind == "raise_noargs":
                raise NoArgsError()
            if kind == "raise_intarg":
                raise InjectedTargetError(7)
            if kind == "raise_stopiter":  # e.g. a target calling next() on an exhausted iterator
                raise StopIteration("injected at call %d" % k)
            bad = {"nan": np.nan, "pinf": np.inf, "ninf": -np.inf, "cplx": 1 + 2j, "cplx0": complex(float(val) if np.isscalar(val) else 1.0, 0.0),
                   "npcplx0": np.complex128(complex(float(val) if np.isscalar(val) else 1.0, 0.0)),
                   "vec": np.array([1.0, 2.0]), "list3": [float(val) if np.isscalar(val) else 1.0, 0.5, 0.25],
                   "tuple2": (float(val) if np.isscalar(val) else 1.0, 0.5), "none": None, "str": "1.5", "hugeint": 10 ** 400,
                   "ldinf": np.longdouble("1e4000") if np.finfo(np.longdouble).max > 1e308 * 10 else np.inf}
            if kind in bad:
                return (bad[kind], sd) if mode == "spec" else bad[kind]
            if kind == "notuple":
                return val
            if kind == "tuple3":
                return (val, sd, sd)
            sdbad = {"sd0": 0.0, "sdneg": -1.0, "sdnan": np.nan, "sdinf": np.inf, "sdnone": None, "sdcplx0": complex(0.1, 0.0), "sdstr": "0.1",
                     "sdhuge": 10 ** 400, "sdvec": np.array([0.1, 0.2]),
                     "sdldzero": np.longdouble("1e-4000") if np.finfo(np.longdouble).tiny < 1e-320 else 0.0}
            return (val, sdbad[kind])
        return (val, sd) if mode == "spec" else val

    return f


# ------------------------------------------------------------------ problem
def build_problem(run):
    job = run.job
    D, geo = run.D, run.geo
    lb, ub, plb, pub, logc = P.geometry(geo, D)
    x0 = P.start_point(job.get("x0", "in"), geo, D)
    raw = P.constraint(job.get("cons"), geo, D)
    def _viol(X):
        v = np.asarray(raw(X)).reshape(-1)
        # a point is acceptable only if the constraint *reports no violation*: value <= 0 / False (NaN is not "satisfying")
        return ~(v <= 0) if v.dtype.kind == "f" else v.astype(bool)

    consf = None if raw is None else _viol
    run.lb, run.ub, run.logc, run.consf = lb, ub, logc, consf

    cons_wrapped = None
    if consf is not None:

        def cons_wrapped(X):
            run.cons_calls.append(np.array(X, dtype=float, copy=True))
            return raw(X)

    kw = dict(x0=x0, lower_bounds=lb.reshape(1, D).copy(), upper_bounds=ub.reshape(1, D).copy(),
              plausible_lower_bounds=plb.reshape(1, D).copy(), plausible_upper_bounds=pub.reshape(1, D).copy(),
              non_box_cons=cons_wrapped)
    if job.get("x0_dtype") and x0 is not None:
        kw["x0"] = np.asarray(x0).astype(job["x0_dtype"])  # e.g. float32: the caller's dtype must not leak into the result
    if geo == "unb":
        kw["lower_bounds"] = None
        kw["upper_bounds"] = None
    if job.get("gamma") is not None:
        kw["gamma_uncertain_interval"] = job["gamma"]
    return kw


def msg_code(msg):
    for kk, vv in (("max_fun_evals", "fe"), ("max_iter", "it"), ("tol_mesh", "mesh"), ("tol_fun", "fun"), ("output_fcn", "out")):
        if kk in (msg or ""):
            return vv
    return ""


# ------------------------------------------------------------------ seams
def install(run, patch):
    bb, es, sh, gpt, gpyreg = _mods()
    BADS = bb.BADS
    job = run.job
    script = run.script
    seams = job.get("seams", False)
    fit_faults = set(int(j) for j in (script.get("fit") or []))
    pred_faults = set(int(j) for j in (script.get("pred") or []))

    # ---- phases
    o_im = BADS._init_mesh_

    def init_mesh(self):
        run.phase = "init"
        try:
            return o_im(self)
        finally:
            run.n_init = len(run.calls)
            run.np_init = int(np.sum(self.function_logger.X_flag))
            run.phase = "gpinit"

    patch.set(BADS, "_init_mesh_", init_mesh)

    o_ss = BADS._search_step_

    def search_step(self, gp):
        run.phase = "search"
        c0 = len(run.calls)
        run.search_status = None
        rec = dict(c0=c0, it=run.loop_it)
        run.searches.append(rec)
        run.step_u0 = np.array(self.u, float).ravel().copy()
        try:
            return o_ss(self, gp)
        finally:
            rec["c1"] = len(run.calls)
            rec["status"] = run.search_status
            run.phase = "loop"

    patch.set(BADS, "_search_step_", search_step)

    o_uss = BADS._update_search_stats_

    def upd_stats(self, status, dist):
        run.search_status = status
        return o_uss(self, status, dist)

    patch.set(BADS, "_update_search_stats_", upd_stats)

    o_ps = BADS._poll_step_

    def poll_step(self, gp):
        run.phase = "poll"
        run.poll_idx = 0
        run.polled_since_probe = True
        rec = dict(c0=len(run.calls), it=run.loop_it, k0=int(self.mesh_size_integer), fval0=float(self.fval),
                   iter=int(self.optim_state["iter"]), mesh=float(self.mesh_size), u0=np.array(self.u, float).copy(),
                   smesh=float(self.optim_state["search_mesh_size"]), B=None, scale=None, nS0=run.n_S)
        rec["fsd0"] = float(self.fsd) if self.fsd is not None and np.size(self.fsd) == 1 else None
        rec["impr"] = []
        run.cur_poll = rec
        run.polls.append(rec)
        run.step_u0 = np.array(self.u, float).ravel().copy()
        try:
            return o_ps(self, gp)
        finally:
            rec["c1"] = len(run.calls)
            rec["k1"] = int(self.mesh_size_integer)
            rec["nS"] = run.n_S - rec["nS0"]
            rec["fval1"] = float(self.fval) if np.isscalar(self.fval) or np.size(self.fval) == 1 else None
            run.cur_poll = None
            run.phase = "loop"

    patch.set(BADS, "_poll_step_", poll_step)

    o_ei = BADS._eval_improvement_

    def eval_impr(self, f_base, f_new, s_base, s_new, q):
        if run.cur_poll is not None and np.size(f_new) == 1:
            run.cur_poll["impr"].append((float(np.ravel(f_base)[0]) if np.size(f_base) == 1 else None, float(np.ravel(f_new)[0])))
        return o_ei(self, f_base, f_new, s_base, s_new, q)

    patch.set(BADS, "_eval_improvement_", eval_impr)

    o_addgp = bb.add_and_update_gp

    def addgp(fl, gp, x_new, y_new, sd_new=None, options=None):
        if run.cur_poll is not None:
            run.cur_poll["n_add"] = run.cur_poll.get("n_add", 0) + 1
        g = o_addgp(fl, gp, x_new, y_new, sd_new, options)
        if run.cur_poll is not None and run.mode != "det":
            # what the *updated* surrogate says at the point just polled: this is the estimate the poll has to be judged on
            try:
                m_, _ = g.predict(np.atleast_2d(np.asarray(x_new, float)))
                run.cur_poll.setdefault("post", []).append(float(np.ravel(m_)[0]))
            except Exception:  # noqa
                run.cur_poll.setdefault("post", []).append(None)
        return g

    patch.set(bb, "add_and_update_gp", addgp)

    o_pm = bb.poll_mads_2n

    def pm(dim, scale, sm, m):
        B = o_pm(dim, scale, sm, m)
        if run.cur_poll is not None:
            run.cur_poll["B"] = np.array(B, float).copy()
            run.cur_poll["scale"] = np.array(scale, float).copy()
        return B

    patch.set(bb, "poll_mads_2n", pm)

    # ---- probe
    D = run.D

    def probe(self, loop_iter, pit, dos, dop, fin, msg):
        fl = self.function_logger
        ncalls = len(run.calls)
        srch = run.searches[-1] if run.searches and run.searches[-1]["it"] == run.loop_it else None
        pol = run.polls[-1] if run.polls and run.polls[-1]["it"] == run.loop_it else None
        if bool(dos) != (srch is not None) or bool(dop) != (pol is not None):
            run.v("C03", "probe flags disagree with observed steps", "probe-flags", (dos, dop, srch is not None, pol is not None))
        sa = "none"
        if srch is not None:
            if srch["c1"] == srch["c0"]:
                sa = "E"
            else:
                sa = {"success": "S", "incremental": "I", "failure": "F"}.get(srch["status"], "?")
        st = dict(sc=int(self.optim_state["search_count"]), ss=int(self.search_success), k=int(self.mesh_size_integer),
                  fc=int(fl.func_count), np=int(np.sum(fl.X_flag)), pit=int(pit), polls=len(run.polls), fin=bool(fin),
                  msg=msg_code(msg), lvl=int(run.n_S), calls=ncalls,
                  mesh=float(self.mesh_size), smesh=float(self.optim_state["search_mesh_size"]),
                  ssi=int(self.optim_state["search_size_integer"]),
                  lab=dict(sa=sa, n=(pol["c1"] - pol["c0"]) if pol else 0, nS=(pol["nS"] if pol else 0),
                           polled=pol is not None, dcalls=ncalls - run.last_calls_at_probe))
        run.probes.append(st)
        # horizon / non-progress
        if ncalls == run.last_calls_at_probe and not run.polled_since_probe:
            run.no_progress += 1
        else:
            run.no_progress = 0
        run.last_calls_at_probe = ncalls
        run.polled_since_probe = False
        run.loop_it += 1
        ntry = int(self.options["search_n_try"])
        if run.no_progress > ntry + 3 and not fin:
            raise NonProgress("no target call and no poll for %d loop iterations" % run.no_progress)
        if run.loop_it > 4 * int(run.user_opts.get("max_fun_evals", 500 * D)) + 40 * (2 * D + ntry) + 400:
            raise Horizon("loop horizon")
        if fin:
            run.phase = "final"

    patch.set(BADS, "_verif_probe", probe)

    # ---- GP faults
    GP = gpyreg.GP
    o_fit = GP.fit

    def fit(self, *a, **k):
        j = run.fit_count
        run.fit_count += 1
        run.choice_points.append(("fit", j, 2))
        run.fit_sites.append((j, run.phase, len(run.calls)))
        if j in fit_faults:
            raise np.linalg.LinAlgError("injected fit failure %d" % j)
        return o_fit(self, *a, **k)

    patch.set(GP, "fit", fit)

    o_gt = BADS._get_target_from_gp_

    def get_target(self, u, gp, hyp):
        run.in_target_pred = True
        try:
            return o_gt(self, u, gp, hyp)
        finally:
            run.in_target_pred = False

    patch.set(BADS, "_get_target_from_gp_", get_target)

    if pred_faults or job.get("pred_points"):
        o_pred = GP.predict

        def predict(self, *a, **k):
            r = o_pred(self, *a, **k)
            if run.in_target_pred:
                j = run.pred_count
                run.pred_count += 1
                run.choice_points.append(("pred", j, 2))
                if j in pred_faults:
                    mu, s2 = r[0], r[1]
                    return (np.full_like(np.asarray(mu, float), np.nan), s2) + tuple(r[2:])
            return r

        patch.set(GP, "predict", predict)

    # ---- hedge draw forcing (C18 sub-matrix)
    hd = script.get("hedge")
    if hd is not None:
        o_hc = sh.ESSearchHedge.__call__

        class _NP:
            """numpy proxy for the hedge module: only random.rand is decided by the script."""

            def __init__(self, real):
                self._real = real
                self.random = self

            def rand(self, *a):
                j = run.hedge_draws
                run.hedge_draws += 1
                if not a and j < len(hd):
                    return float(hd[j])
                return self._real.random.rand(*a)

            def randint(self, *a, **k):
                return self._real.random.randint(*a, **k)

            def __getattr__(self, n):
                return getattr(self._real, n)

        patch.set(sh, "np", _NP(sh.np))

    if seams:
        install_observers(run, patch)


# ------------------------------------------------------------------ observers (C14/15/17/18 at run level)
def install_observers(run, patch):
    bb, es, sh, gpt, gpyreg = _mods()
    BADS = bb.BADS

    def lookup_rows(fl, x):
        n = fl.Xn + 1
        return np.where((fl.X[:n] == np.ravel(x)).all(1))[0]

    # ---- C15: training pairs are log rows
    def check_gp(tag, gp, fl):
        n = fl.Xn + 1
        X = fl.X[:n]
        Y = fl.Y[:n]
        gy = np.ravel(gp.y)
        he = bool(fl.noise_flag and fl.he_noise_flag)
        gs2 = None if gp.s2 is None else np.ravel(gp.s2)
        for i in range(gp.X.shape[0]):
            rows = np.where((X == gp.X[i]).all(1))[0]
            if len(rows) == 0:
                run.v("C15", "training input is not a logged point", "train-x-notlogged/%s" % tag, (i, gp.X[i].tolist()))
                break
            if not any(Y[r, 0] == gy[i] for r in rows):
                run.v("C15", "training value differs from the log", "train-y-mismatch/%s" % tag,
                      (i, float(gy[i]), [float(Y[r, 0]) for r in rows]))
                break
            if he and gs2 is not None and len(gs2) == gp.X.shape[0]:
                if not any(np.isclose(gs2[i], fl.S[r, 0] ** 2, rtol=1e-12, atol=0.0) for r in rows):
                    run.v("C15", "supplied noise does not enter as logged SD squared", "s2-not-squared/%s" % tag,
                          (i, float(gs2[i]), [float(fl.S[r, 0]) for r in rows]))
                    break
            elif he and (gs2 is None or len(gs2) != gp.X.shape[0]):
                run.v("C15", "noise vector length differs from training set", "s2-length/%s" % tag,
                      (None if gs2 is None else len(gs2), gp.X.shape[0]))
                break
        run.stats["gp_" + tag] += 1

    o_lgf = bb.local_gp_fitting

    def lgf(gp, u, fl, options, optim_state, ih, refit):
        ls = copy.deepcopy(gp.temporary_data["len_scale"])
        if run.phase in ("poll", "search") and run.step_u0 is not None:
            allowed = [run.step_u0]
            if run.phase == "search" and run.calls:
                vt_ = fl.variable_transformer
                allowed.append(np.ravel(vt_(run.calls[-1]["x"].reshape(1, -1))) if vt_ is not None else run.calls[-1]["x"])
            uu_ = np.ravel(u)
            if not any(np.allclose(uu_, a, rtol=0, atol=1e-12) for a in allowed):
                run.v("C15", "training set is selected around a point that is not the current incumbent", "neighbours-wrong-centre/%s" % run.phase, (uu_.tolist(), allowed[0].tolist()))
        # the metric of the selection is the GP's own: once the object has been through a local fit, the stored length scales
        # are those of its current hyperparameters (single hyperparameter sample, per-coordinate length scales)
        if getattr(gp, "_verif_fitted", False) and np.size(ls) > 1:
            try:
                hy_ = gp.get_hyperparameters()
                if len(hy_) == 1:
                    want_ = np.exp(np.ravel(hy_[0]["covariance_log_lengthscale"]))
                    if want_.shape == np.shape(np.ravel(ls)) and not np.allclose(np.ravel(ls), want_, rtol=1e-9, atol=0):
                        run.v("C15", "neighbour selection uses length scales that are not those of the GP's current hyperparameters", "neighbours-stale-length-scales",
                              (np.ravel(ls).tolist(), want_.tolist()))
            except Exception:  # noqa
                pass
        out = o_lgf(gp, u, fl, options, optim_state, ih, refit)
        g = out[0]
        try:
            g._verif_centre = np.ravel(u).copy() if run.phase in ("poll", "search") else None   # per GP object (copies carry it along)
            if refit:
                g._verif_fitted = True
        except Exception:  # noqa
            pass
        check_gp("local", g, fl)
        n = fl.Xn + 1
        X = fl.X[:n]
        uu = np.ravel(u)
        d = np.sum(((X - uu) / ls) ** 2, 1)
        dsel = np.sum(((g.X - uu) / ls) ** 2, 1)
        k = g.X.shape[0]
        tol = 1e-12 * (1.0 + (dsel.max() if k else 0.0))
        if np.any(np.diff(dsel) < -tol):
            run.v("C15", "training set not ordered by distance", "neighbours-not-ascending", dsel[:6].tolist())
        if k < n and k > 0 and dsel.max() > np.sort(d)[k - 1] + tol:
            run.v("C15", "training set is not the k nearest logged points", "neighbours-not-nearest", (k, n))
        lo = min(n, int(options["n_train_min"]))
        hi = max(int(options["n_train_min"]), int(options["n_train_max"]))
        if not (lo <= k <= hi):
            run.v("C15", "training set size outside configured limits", "train-size", (k, n, lo, hi))
        return out

    patch.set(bb, "local_gp_fitting", lgf)

    o_add = bb.add_and_update_gp

    def centre_is_incumbent(tag, gp=None):
        """Between local fits the training set keeps the centre of the last selection: it must still be the incumbent
        (an incumbent move has to force a re-selection before the surrogate is used or updated again)."""
        c = getattr(gp, "_verif_centre", None)
        if run.phase in ("poll", "search") and c is not None and run.step_u0 is not None:
            allowed = [run.step_u0]
            if run.phase == "search" and run.calls:
                vt_ = run.bads.function_logger.variable_transformer if run.bads is not None else None
                if vt_ is not None:
                    allowed.append(np.ravel(vt_(run.calls[-1]["x"].reshape(1, -1))))
            if not any(np.allclose(c, a, rtol=0, atol=1e-12) for a in allowed):
                run.v("C15", "surrogate used/updated with a training set selected around a previous incumbent", "stale-training-centre/%s" % tag, (c.tolist(), run.step_u0.tolist()))

    def add(fl, gp, x_new, y_new, sd_new=None, options=None):
        centre_is_incumbent("update", gp)
        k0 = gp.X.shape[0]
        g = o_add(fl, gp, x_new, y_new, sd_new, options)
        if g.X.shape[0] == k0 + 1:
            if not np.array_equal(g.X[-1], np.ravel(x_new)):
                run.v("C15", "posterior update appended a different point", "add-x", "")
        elif g.X.shape[0] == k0 and fl.he_noise_flag and np.any((g.X == np.ravel(x_new)).all(1)):
            run.stats["gp_add_merged"] += 1  # repeated observation merged into the point's own pair
        else:
            run.v("C15", "posterior update neither appended the new evaluation nor refreshed its pair", "add-size", (k0, g.X.shape[0]))
        check_gp("add", g, fl)
        return g

    patch.set(bb, "add_and_update_gp", add)

    o_init = bb.init_and_train_gp

    def init_gp(hyp_dict, optim_state, fl, ih, options, plb, pub):
        out = o_init(hyp_dict, optim_state, fl, ih, options, plb, pub)
        check_gp("init", out[0], fl)
        k, hi = out[0].X.shape[0], max(int(options["n_train_min"]), int(options["n_train_max"]))
        if k > hi:
            run.v("C15", "initial fit: training set larger than the configured maximum", "train-size/init", (k, hi))
        return out

    patch.set(bb, "init_and_train_gp", init_gp)

    # ---- acquisition (C15 formula, C18 collection)
    def mk_acq(orig, tag):
        def acq(xi, fc, gp, sqrt_beta=None):
            if tag == "bads":
                centre_is_incumbent("acquisition", gp)
            z, mu, s = orig(xi, fc, gp, sqrt_beta)
            ref = None
            if xi.shape[0] > 0 and (sqrt_beta is None or callable(sqrt_beta) or np.isscalar(sqrt_beta)):
                t = fc + 1
                if callable(sqrt_beta):
                    sb = float(sqrt_beta(t, xi.shape[1]))   # a user schedule is a function of (t, dimension)
                else:
                    sb = np.sqrt(0.4 * np.log(xi.shape[1] * t**2 * np.pi**2 / 0.6)) if sqrt_beta is None else float(sqrt_beta)
                m2, s2 = gp.predict(xi)
                ref = m2 - sb * np.sqrt(s2)
                if not np.allclose(z, ref, rtol=1e-12, atol=1e-12, equal_nan=True):
                    run.v("C15", "acquisition value differs from mean - sqrt(beta_t)*sd", "lcb-formula/%s" % tag,
                          float(np.nanmax(np.abs(np.asarray(z) - ref))))
            if tag == "es" and run.es_holder is not None:
                run.es_holder.append((np.array(xi, float).copy(), np.ravel(z).copy(), None if ref is None else np.ravel(ref).copy()))
            run.stats["acq_" + tag] += 1
            return z, mu, s

        return acq

    patch.set(bb, "acq_fcn_lcb", mk_acq(bb.acq_fcn_lcb, "bads"))
    patch.set(es, "acq_fcn_lcb", mk_acq(es.acq_fcn_lcb, "es"))

    o_call = es.ESSearch.__call__

    def escall(self, u, lb_, ub_, fl, gp, optim_state, sum_rule=True, non_box_cons=None):
        run.es_holder = []
        try:
            us, z = o_call(self, u, lb_, ub_, fl, gp, optim_state, sum_rule, non_box_cons)
            hold = [h for h in run.es_holder if len(h[1])]
            if not hold and np.size(us) > 0:
                run.v("C18", "the strategy proposed a point although no candidate survived the filters", "es-proposal-without-survivors", np.ravel(us)[:3].tolist())
            if hold:
                allz = np.concatenate([h[1] for h in hold])
                allx = np.vstack([h[0] for h in hold])
                # independent reference: the configured LCB recomputed from the GP mean / SD for every collected candidate
                if all(h[2] is not None for h in hold) and np.size(us):
                    allref = np.concatenate([h[2] for h in hold])
                    jj = np.where((allx == np.ravel(us)).all(1))[0]
                    if len(jj) and not np.all(np.isnan(allref)):
                        best = np.nanmin(allref)
                        if not any(abs(allref[i] - best) <= 1e-9 * (1.0 + abs(best)) for i in jj):
                            run.v("C18", "proposed point does not minimise the configured lower confidence bound (recomputed independently)", "es-not-argmin-of-configured-lcb",
                                  (float(min(allref[i] for i in jj)), float(best)))
                zz = float(np.ravel(z)[0]) if np.size(z) else np.nan
                if np.all(np.isnan(allz)):
                    # every acquisition value is NaN (degenerate GP): "lowest value" is undefined -> don't-care,
                    # but the proposal must still be one of the generated candidates
                    run.stats["es_calls_all_nan"] += 1
                    if np.size(us) and len(np.where((allx == np.ravel(us)).all(1))[0]) == 0:
                        run.v("C18", "proposed point is not a generated candidate", "es-point-not-candidate-nan", "")
                else:
                    zmin = np.nanmin(allz)
                    if not (zz == zmin):
                        run.v("C18", "proposed value is not the minimum acquisition value", "es-not-argmin", (zz, float(zmin)))
                    j = np.where((allx == np.ravel(us)).all(1))[0] if np.size(us) else []
                    if len(j) == 0 or not any(allz[i] == zz for i in j):
                        run.v("C18", "proposed point is not a generated candidate with that value", "es-point-not-candidate", "")
                if np.any(allx < optim_state["lb_search"]) or np.any(allx > optim_state["ub_search"]):
                    run.v("C18", "ES candidate outside the mesh-rounded box", "es-candidate-outside", "")
                # the mesh-rounded box recomputed from the hard box and the *current* search mesh (the stored one may be stale)
                sm_ = float(optim_state["search_mesh_size"])
                with np.errstate(all="ignore"):
                    lbs_ = np.round(np.ravel(optim_state["lb"]) / sm_) * sm_
                    lbs_ = np.where(lbs_ < np.ravel(optim_state["lb"]), lbs_ + sm_, lbs_)
                    ubs_ = np.round(np.ravel(optim_state["ub"]) / sm_) * sm_
                    ubs_ = np.where(ubs_ > np.ravel(optim_state["ub"]), ubs_ - sm_, ubs_)
                if np.any(allx < lbs_ - 1e-12) or np.any(allx > ubs_ + 1e-12) or np.any(np.isnan(allx)):
                    run.v("C18", "ES candidate outside the box rounded to the current search mesh", "es-candidate-outside-current-mesh",
                          (float(np.nanmax(np.maximum(lbs_ - allx, allx - ubs_))), sm_))
                if run.consf is not None:
                    xo = fl.variable_transformer.inverse_transf(allx)
                    if np.any(run.consf(xo)):
                        run.v("C18", "ES candidate violates the non-box constraint", "es-candidate-infeasible", "")
                run.stats["es_cands"] += len(allz)
            run.stats["es_calls"] += 1
            run.stats["es_" + type(self).__name__] += 1
            return us, z
        finally:
            run.es_holder = None

    patch.set(es.ESSearch, "__call__", escall)

    o_hcall = sh.ESSearchHedge.__call__

    def hcall(self, u, lb, ub, fl, gp, optim_state):
        try:
            return o_hcall(self, u, lb, ub, fl, gp, optim_state)
        finally:
            p = np.asarray(getattr(self, "prob", np.array([np.nan])), float)
            if not (np.all(np.isfinite(p)) and abs(p.sum() - 1) < 1e-12 and np.all(p >= self.gamma - 1e-15)):
                run.v("C18", "hedge probabilities are not a proper distribution with floor", "hedge-prob", p.tolist())
            run.stats["hedge_calls"] += 1

    patch.set(sh.ESSearchHedge, "__call__", hcall)

    # ---- C17 filter seam
    def mk_cc(orig, tag):
        def cc(U, lb_, ub_, tol, fl, proj=True, nbc=None):
            out = orig(U, lb_, ub_, tol, fl, proj, nbc)
            site = tag + ":" + run.phase
            if out.size:
                if np.any(out < lb_) or np.any(out > ub_):
                    run.v("C17", "candidate outside the box it was filtered against", "filter-outside/%s" % site, "")
                if len(np.unique(out, axis=0)) != len(out):
                    run.v("C17", "duplicate candidates handed on", "filter-duplicates/%s" % site, "")
                if run.consf is not None:
                    if np.any(run.consf(fl.variable_transformer.inverse_transf(out))):
                        run.v("C17", "infeasible candidate handed on", "filter-infeasible/%s" % site, "")
                n = fl.X_max_idx + 1
                a = np.round(out / (tol / 2))
                b_ = np.round(fl.X[:n] / (tol / 2))
                hit = [r for r in a if (b_ == r).all(1).any()]
                if hit:
                    run.v("C17", "candidate coincides with an already evaluated point", "filter-evaluated-not-removed/%s" % site, len(hit))
            run.stats["cc_" + tag] += 1
            return out

        return cc

    patch.set(bb, "contraints_check", mk_cc(bb.contraints_check, "bads"))
    patch.set(es, "contraints_check", mk_cc(es.contraints_check, "es"))


# ------------------------------------------------------------------ execute
def execute(job):
    """Run one execution; returns a compact, picklable, JSON-able record."""
    os.environ["PYBADS_VERIF"] = "1"
    bb, es, sh, gpt, gpyreg = _mods()
    run = Run(job)
    patch = Patch()
    np.seterr(all="ignore")
    saved_err = np.geterr()
    try:
        kw = build_problem(run)
        f = make_target(run)
        opts = P.base_options(run.mode, job.get("seed", 1), job.get("opts"))
        if job.get("spec_only") and run.mode == "spec":
            opts.pop("uncertainty_handling", None)  # specify_target_noise alone must switch uncertainty handling on
        run.user_opts = dict(opts)
        if opts.get("output_fcn") == "STOP_INIT":
            opts["output_fcn"] = lambda x, state: True
        elif opts.get("output_fcn") == "NEVER_STOP":
            opts["output_fcn"] = lambda x, state: False
        saf = opts.get("search_acq_fcn")
        if isinstance(saf, (list, tuple)) and len(saf) == 2 and saf[1] == "SCHEDULE_D":
            # a user-supplied LCB schedule that depends on its second argument (the dimension)
            opts["search_acq_fcn"] = (saf[0], lambda t, d: np.sqrt(0.3 * d * np.log(1.0 + t)))
        install(run, patch)
        if job.get("target_obj"):
            f = _TargetObject(f)
        try:
            b = bb.BADS(f, options=opts if job.get("opts_by_reference") else dict(opts), **kw)
            run.bads = b
            run.phase = "pre"
            if job.get("reseed_after_construct") is not None:
                # the seed option is changed on the constructed object before the run: the run is seeded with the new value and
                # the result must name the seed that was actually used
                b.options["random_seed"] = int(job["reseed_after_construct"])
                run.user_opts["random_seed"] = int(job["reseed_after_construct"])
            if job.get("scribble_inputs"):
                # the caller goes on using its own arrays after construction: the run and the result must not follow them
                for name_ in ("x0", "lower_bounds", "upper_bounds", "plausible_lower_bounds", "plausible_upper_bounds"):
                    a_ = kw.get(name_)
                    if isinstance(a_, np.ndarray) and a_.flags.writeable:
                        a_[...] = 12345.0
            run.result = b.optimize()
        except BaseException as e:  # noqa
            if isinstance(e, (KeyboardInterrupt, SystemExit, HarnessError)):
                raise
            run.exc = e
            run.exc_sig = exc_signature(e)
    finally:
        patch.restore()
        np.seterr(**saved_err)
    from . import monitors

    monitors.apply(run)
    return summarize(run)


def _dedupe(viol):
    """(prop, clause, key, detail) list -> one entry per (prop, key) with a count."""
    d = {}
    for prop, clause, key, detail in viol:
        e = d.get((prop, key))
        if e is None:
            d[(prop, key)] = [prop, clause, key, detail, 1]
        else:
            e[4] += 1
    return [tuple(e) for e in d.values()]


def summarize(run):
    calls = run.calls
    h = __import__("hashlib").sha256()
    for c in calls:
        h.update(c["x"].tobytes())
        h.update(np.float64(c["val"] if isinstance(c["val"], (int, float)) else np.nan).tobytes())
    r = run.result
    out = dict(
        n_calls=len(calls),
        n_init=run.n_init,
        calls_digest=h.hexdigest()[:16],
        choice_points=run.choice_points,
        viol=_dedupe(run.viol),
        exc=run.exc_sig,
        exc_msg=(str(run.exc)[:200] if run.exc is not None else None),
        exc_type=(type(run.exc).__name__ if run.exc is not None else None),
        injected=run.injected,
        probes=run.probes,
        stats=dict(run.stats),
        fit_count=run.fit_count,
        fit_sites=run.fit_sites,
        pred_count=run.pred_count,
        phases=[c["phase"] for c in calls],
        n_polls=len(run.polls),
        n_searches=len(run.searches),
        repeat_in_loop=run.repeat_in_loop,
        polls=[dict(k0=p["k0"], k1=p.get("k1"), n=p.get("c1", p["c0"]) - p["c0"], it=p["it"]) for p in run.polls],
        result=None,
    )
    if run.job.get("want_init_points"):
        out["init_points"] = [c["x"].tolist() for c in calls if c["phase"] in ("init", "construct")]
    if r is not None:
        out["result"] = dict(
            x=np.ravel(r["x"]).tolist(), fval=float(r["fval"]), fsd=(None if r["fsd"] is None else float(r["fsd"])),
            func_count=int(r["func_count"]), message=msg_code(r["message"]), mesh_size=float(r["mesh_size"]),
            iterations=int(r["iterations"]), target_type=r["target_type"],
        )
    if run.bads is not None and hasattr(run.bads, "function_logger"):
        o = run.bads.options
        try:
            out["impl"] = dict(ntry=int(o["search_n_try"]), tsi=int(o["tol_stall_iters"]), acc_steps=int(o["accelerate_mesh_steps"]),
                               np_init=run.np_init, maxfe_eff=int(o["max_fun_evals"]), nfs_eff=int(o["noise_final_samples"]),
                               max_iter=int(o["max_iter"]), cap=int(o["max_poll_grid_number"]))
        except Exception as e:  # noqa
            out["impl"] = dict(error=repr(e))
        fl = run.bads.function_logger
        out["fl_func_count"] = int(fl.func_count)
        out["fl_Xn"] = int(fl.Xn)
        if run.job.get("check_c10"):
            n = fl.Xn + 1
            bad = None
            if n > 0 and not (np.all(np.isfinite(fl.Y[:n])) and np.all(np.isreal(fl.Y[:n]))):
                bad = "non-finite value in the log"
            if fl.noise_flag and n > 0 and fl.he_noise_flag and not np.all(np.isfinite(fl.S[:n]) & (fl.S[:n] > 0)):
                bad = "invalid SD in the log"
            nvalid = len(calls) - (1 if run.injected else 0)
            if n > nvalid:
                bad = "more recorded rows (%d) than valid calls (%d)" % (n, nvalid)
            out["log_check"] = bad
    oc = dict(n=len(calls), exc=run.exc_sig, msg=(out["result"] or {}).get("message"),
              polls=out["n_polls"], searches=out["n_searches"],
              ks=[p["k"] for p in run.probes][-6:], sa="".join(p["lab"]["sa"][0] for p in run.probes)[:40])
    out["outcome"] = __import__("json").dumps(oc, sort_keys=True)
    out["full_digest"] = __import__("hashlib").sha256(
        (out["calls_digest"] + out["outcome"] + repr(out["result"])).encode()).hexdigest()[:16]
    return out
