"""Option-variant alphabet shared by the run-level checks ("all option settings" in the quantifiers).
Each variant is one valid override (or a small consistent group) of a documented option.  Excluded, with reason:
the advanced switches that change the controller the M1 model describes (DESIGN section 3), `fit_lik=False`
(rejected by the installed gpyreg), `periodic_vars`, `fun_values`, `f_vals` (unsupported inputs), `acq_hedge=True` (the source says
"not supported yet" and fails with UnboundLocalError), `warp_func != 0` (input warping is not ported: UnboundLocalError),
`accelerate_mesh_steps=0` (compares the current iteration with itself: IndexError), `init_fun != init_sobol` and other
`search_method` entries (rejected explicitly as not implemented)."""

VARIANTS = [
    {"nonlinear_scaling": False}, {"complete_poll": True}, {"accelerate_mesh": False}, {"noise_size": 0.3}, {"tol_fun": 1e-2}, {"tol_fun": 1e-5},
    {"tol_mesh": 1e-3}, {"tol_stall_iters": 2}, {"tol_noise": 1e-3}, {"fun_eval_start": 1}, {"fun_eval_start": 8}, {"cache_size": 7},
    {"n_search": 2**8}, {"n_search_iter": 1}, {"n_search_iter": 3}, {"search_n_try": 1}, {"search_n_try": 6},
    {"gp_mean_fun": "zero"}, {"gp_mean_fun": "negquad"}, {"gp_cov_fun": 2}, {"gp_cov_fun": 3}, {"n_train_min": 5, "n_train_max": 10}, {"buffer_ntrain": 0},
    {"gp_radius": 1.0}, {"double_refit": True}, {"poll_training": False}, {"uncertain_incumbent": False}, {"alternative_incumbent": True},
    {"adaptive_incumbent_shift": True}, {"consecutive_skipping": False}, {"min_refit_time": 1}, {"tol_poi": 0.0}, {"hedge_gamma": 0.0}, {"hedge_gamma": 0.3},
    {"hedge_decay": 0.5}, {"remove_points_after_tries": 3}, {"noise_nudge": None}, {"gp_rescale_poll": 0.5}, {"use_slice_sampler": True},
    {"min_failed_poll_steps": 0}, {"improvement_quantile": 0.3}, {"final_quantile": 0.1}, {"incumbent_sigma_multiplier": 1.0}, {"es_beta": 0.5},
    {"search_scale_success": 2.0}, {"max_iter": 3}, {"noise_final_samples": 0}, {"normalpha_level": 0.5}, {"upper_gp_length_factor": 2.0},
    {"gp_quadratic_mean_bound": False, "gp_mean_fun": "negquad"}, {"gp_cov_prior": "none"}, {"search_grid_number": 5}, {"es_start": 1.0},
    # second batch: every remaining option the code actually reads (grep of options[...] in the sources) with a valid non-default value
    {"accelerate_mesh_steps": 1}, {"accelerate_mesh_steps": 5}, {"mesh_overflow_warning": 1}, {"search_mesh_increment": 0},
    {"search_mesh_increment": 2, "search_mesh_expand": 1}, {"gp_train_n_init": 16, "gp_train_n_init_final": 4}, {"gp_fixed_mean": True}, {"tol_sd": 0.5},
    {"search_scale_incremental": 1.5}, {"search_scale_failure": 0.5}, {"search_optimize": True}, {"restarts": 1}, {"hpd_frac": 0.5},
    {"gp_train_init_method": "sobol"}, {"gp_tol_opt": 1e-3}, {"gp_mean_percentile": 50}, {"fun_evals_per_iter": 2}, {"fitness_shaping": True},
    {"mesh_noise_multiplier": 0.0}, {"mesh_noise_multiplier": 1.0}, {"noise_shaping": True}, {"hyp_run_weight": 0}, {"hyp_run_weight": 0.5},
    {"use_effective_radius": False}, {"display": "off"}, {"display": "full"}, {"gp_hyp_sampler": "slicelite"}, {"weighted_hyp_cov": False},
    {"max_poll_grid_number": 2}, {"rotate_gp": True}, {"tol_improvement": 0.5}, {"tol_improvement": 2}, {"forcing_exponent": 2}, {"forcing_exponent": 1},
]


def sweep_jobs(make_job, quick, modes=("det", "decl", "spec"), Ds=(1, 2)):
    """make_job(D, mode, opts) -> job dict.  Quick: every variant on two (D, mode) cells chosen round-robin so that every
    mode and dimension meets every third variant; thorough: the full product."""
    jobs = []
    cells = [(D, m) for D in Ds for m in modes]
    for i, v in enumerate(VARIANTS):
        use = cells if not quick else [cells[i % len(cells)], cells[(i + 3) % len(cells)]]
        for D, m in use:
            jobs.append(make_job(D, m, dict(v)))
    return jobs


# value *spellings* of options and problem ingredients that are valid but unusual (used by C09 only: some of them change
# the incumbent-update policy, which other properties fix in their quantifier)
C09_EXTRA = [
    {"max_fun_evals": 40.0}, {"max_fun_evals": 70.0, "noise_final_samples": 10}, {"poll_mesh_multiplier": 2}, {"search_acq_fcn": ("acq_LCB", 2.0)},
    {"sloppy_improvement": False}, {"max_iter": 4.0},
    {"skip_poll_after_search": False}, {"search_size_locked": False}, {"search_mesh_expand": 1}, {"force_poll_mesh": True}, {"max_poll_grid_number": 1},
    {"stobads": True}, {"opp_stobads": False, "stobads": True}, {"output_fcn": "STOP_INIT"}, {"output_fcn": "NEVER_STOP"},
]
