"""Glue shared by the E1-based property checks: determinism gate, sink, replay, coverage counters."""
import copy
import json
import multiprocessing as mp

from .common import HarnessError, Report, _init_worker, pmap, worker_env
from .explore import explore
from .harness import execute


def _exec_fresh(job):
    """Execute in a brand-new process (used by the gate and by violation replay)."""
    worker_env()
    ctx = mp.get_context("fork")
    with ctx.Pool(1, initializer=_init_worker, maxtasksperchild=1) as p:
        return p.apply(execute, (job,))


def gate(jobs):
    """Each gate job is executed twice, in two different fresh processes; digests must agree."""
    for j in jobs:
        a = _exec_fresh(j)
        b = _exec_fresh(j)
        if a["full_digest"] != b["full_digest"] or a["choice_points"] != b["choice_points"]:
            raise HarnessError("determinism gate failed for %s: %s vs %s" % (json.dumps(j)[:200], a["outcome"], b["outcome"]))
    return len(jobs)


def replay_case(pid):
    def _replay(case, key):
        res = _exec_fresh(case)
        for prop, clause, k, detail, cnt in res["viol"]:
            if "%s/%s" % (prop, k) == key:
                return True
        if key.startswith("%s/crash/" % pid) and res["exc"] is not None:
            return key.split("/crash/")[1].split("|")[0] == res["exc"]
        return False

    return _replay


class E1Sink:
    """Feeds executions into a Report: violations of `pid`, aborts, abstract states/transitions."""

    def __init__(self, rep, pid, crash_is_violation=False, cfg_class=None, extra=None):
        self.rep = rep
        self.pid = pid
        self.crash = crash_is_violation
        self.cfg_class = cfg_class or (lambda job: "%s/%s/D%d" % (job.get("mode", "det"), job.get("cons") or "nocons", job["D"]))
        self.states = set()
        self.trans = set()
        self.outcomes = set()
        self.judged = 0
        self.other = {}
        self.extra = extra
        self.stat_tot = {}
        self.by_class = {}

    def __call__(self, job, res, depth):
        rep = self.rep
        cls = "%s/%s" % (job.get("geo"), job.get("mode", "det"))
        c = self.by_class.setdefault(cls, [0, 0])
        c[0] += 1
        if res["exc"] is None or res.get("injected") or job.get("expect") == "reject":
            c[1] += 1
        self.outcomes.add(res["outcome"])
        prev = None
        for pr in res["probes"]:
            st = (pr["sc"], pr["ss"], pr["k"], pr["pit"], pr["fin"], pr["msg"], min(pr["fc"], 10**6))
            lab = (pr["lab"]["sa"], pr["lab"]["n"], pr["lab"]["polled"])
            self.states.add(st)
            if prev is not None:
                self.trans.add((prev, lab, st))
            else:
                self.trans.add(("init", lab, st))
            prev = st
        for k, v in (res.get("stats") or {}).items():
            self.stat_tot[k] = self.stat_tot.get(k, 0) + v
        for prop, clause, key, detail, cnt in res["viol"]:
            if prop == self.pid:
                rep.violation(clause, key, detail, job)
            else:
                self.other["%s/%s" % (prop, key)] = self.other.get("%s/%s" % (prop, key), 0) + 1
        if res["exc"] is not None and job.get("expect") == "reject":
            self.judged += 1
        elif res["exc"] is not None and not res.get("injected"):
            injected_gp = bool((job.get("script") or {}).get("fit")) or bool((job.get("script") or {}).get("pred"))
            if self.crash:
                key = "crash/%s|%s" % (res["exc"], self.cfg_class(job))
                rep.violation("optimize() failed with an internal error", key, res["exc_msg"], job)
            else:
                rep.abort(res["exc"])
        else:
            self.judged += 1
        if self.extra is not None:
            self.extra(job, res, depth)
        if len(rep.samples) < 4 and depth >= 1:
            rep.sample(dict(job={k: v for k, v in job.items() if k != "monitors"}, outcome=json.loads(res["outcome"])))

    def finish_cov(self, stats):
        rep = self.rep
        rep.set("executions", stats.get("executions", 0))
        rep.set("choice_points", stats.get("choice_points", 0))
        rep.set("stages", stats.get("stages", []))
        rep.set("deviation_bound_completed", max([g["bound_completed"] for g in stats.get("stages", [])] or [-1]))
        rep.set("executions_by_depth", {str(k): v for k, v in stats.get("by_depth", {}).items()})
        rep.set("states", max(1, len(self.states)))
        rep.set("transitions", max(1, len(self.trans)))
        rep.set("traces_validated_against_impl", self.judged)
        rep.set("distinct_outcomes", len(self.outcomes))
        rep.set("other_property_observations", self.other)
        rep.set("seam_counters", self.stat_tot)
        if stats.get("capped"):
            rep.cap_hit("execution cap reached before the deviation bound was completed")


def vacuity_floor(rep, sink, floor):
    dead = sorted(k for k, (n, ok) in sink.by_class.items() if n >= 4 and ok == 0)
    if dead and not rep.viol:
        raise HarnessError("no execution of the class(es) %s could be judged (all aborted): %s" % (dead, rep.aborted))
    if sink.judged < floor:
        raise HarnessError("vacuous run: only %d non-aborted executions (floor %d); aborted=%s" % (sink.judged, floor, rep.aborted))
