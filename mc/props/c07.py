"""C07 -- a fixed random_seed makes runs reproducible, independent of process history.
E2 over process histories: every history of <= 2 activities (6-letter alphabet) in two slots (before constructing the
instance under test / between its construction and optimize()), each in a fresh interpreter, x 8-10 problems;
one long-lived interpreter additionally chains all cases.  Oracle: bit-identical call log and result."""
import hashlib
import itertools
import json
import os
import subprocess
import sys

import numpy as np

from ..common import HarnessError, REPO, Report, VERIF, pmap

PID = "C07"
ACTS = ["draw17", "runother", "runother_seeded", "construct_only", "run_noisy", "options_logging", "run_1d_narrow", "same_arrays_first", "printoptions", "run_double_refit", "printformatter", "same_options_first"]
_SHARED = {}


def shared_bounds():
    """Module-level bound arrays of a log-scaled problem, handed to several instances *as the same objects*
    (a multi-start loop re-using its arrays)."""
    if not _SHARED:
        _SHARED.update(lb=np.array([[1e-3, 1e-3]]), ub=np.array([[1e3, 1e3]]), plb=np.array([[1e-1, 1e-1]]), pub=np.array([[1e2, 1e2]]))
    return _SHARED



_SHARED_OPTS = {}


def shared_options():
    """One options dict, with array-valued entries, that the caller hands to several noisy optimisations in turn."""
    if not _SHARED_OPTS:
        _SHARED_OPTS.update({"display": "off", "random_seed": 7, "max_fun_evals": np.array(62), "noise_final_samples": 3, "uncertainty_handling": True,
                             "noise_size": np.array([0.5]), "tol_mesh": np.array(1e-5)})
    return _SHARED_OPTS


def problems(quick):
    ps = []
    for kind in ("det", "noisy"):
        for x0 in ("given", "absent"):
            for D in (1, 2):
                ps.append(dict(kind=kind, x0=x0, D=D, mfe=40 if kind == "det" else 55))
    ps.append(dict(kind="det", x0="absent", D=2, mfe=40, seed=0))   # random_seed = 0 is a seed like any other
    ps.append(dict(kind="logshared", x0="given", D=2, mfe=40))       # log-scaled box whose bound arrays are shared with an earlier instance
    ps.append(dict(kind="optshared", x0="given", D=2, mfe=62))       # noisy run built from an options dict (array-valued entries) that an earlier run used too
    ps.append(dict(kind="det", x0="absent", D=7, mfe=45))            # the initial design seed is derived from a printed array (D > print threshold)
    ps.append(dict(kind="heavy", x0="given", D=1, mfe=100))   # noise far above noise_size: GP refits take their high-noise retry branch
    if not quick:
        ps.append(dict(kind="heavy", x0="given", D=1, mfe=150))
        ps.append(dict(kind="heavy", x0="given", D=2, mfe=100))
        ps.append(dict(kind="heavy", x0="absent", D=1, mfe=100))
        ps.append(dict(kind="cons", x0="given", D=2, mfe=45))
    return ps


def make_instance(p):
    from pybads import BADS

    D = p["D"]
    log = hashlib.sha256()
    n = [0]

    def f(x):
        xx = np.asarray(x, float)
        log.update(xx.tobytes())
        v = float(np.sum((xx - 0.3) ** 2)) if p["kind"] != "logshared" else float(np.sum((np.log10(xx) - 0.3) ** 2))
        if p["kind"] in ("noisy", "optshared"):
            v += 0.5 * float(np.random.randn())
        elif p["kind"] == "heavy":
            v += 100.0 * float(np.random.randn())
        n[0] += 1
        log.update(np.float64(v).tobytes())
        return v

    o = {"display": "off", "random_seed": p.get("seed", 7), "max_fun_evals": p["mfe"], "noise_final_samples": 3}
    kw = dict(lower_bounds=np.full((1, D), -5.0), upper_bounds=np.full((1, D), 5.0), plausible_lower_bounds=np.full((1, D), -2.0), plausible_upper_bounds=np.full((1, D), 2.0))
    if p["kind"] == "logshared":
        sb = shared_bounds()
        kw = dict(lower_bounds=sb["lb"], upper_bounds=sb["ub"], plausible_lower_bounds=sb["plb"], plausible_upper_bounds=sb["pub"])
    if p["kind"] == "optshared":
        o = shared_options()
    if p["x0"] == "given":
        kw["x0"] = np.full((1, D), 1.0)
    if p["kind"] == "cons":
        kw["non_box_cons"] = lambda X: np.sum(np.atleast_2d(X) ** 2, axis=1) > 9.0
    return BADS(f, options=o, **kw), log, n


def activity(a):
    from pybads import BADS

    if a == "draw17":
        np.random.rand(17)
    elif a in ("runother", "runother_seeded"):
        o = {"display": "off", "max_fun_evals": 25, "tol_mesh": 1e-3}
        if a == "runother_seeded":
            o["random_seed"] = 99
        BADS(lambda x: float(np.sum(np.asarray(x) ** 2)), x0=np.full((1, 3), 0.5), lower_bounds=np.full((1, 3), -3.0), upper_bounds=np.full((1, 3), 3.0), options=o).optimize()
    elif a == "same_arrays_first":
        sb = shared_bounds()
        BADS(lambda x: float(np.sum(np.log10(np.asarray(x)) ** 2)), x0=np.full((1, 2), 3.0), lower_bounds=sb["lb"], upper_bounds=sb["ub"],
             plausible_lower_bounds=sb["plb"], plausible_upper_bounds=sb["pub"], options={"display": "off", "max_fun_evals": 12, "random_seed": 5}).optimize()
    elif a == "printoptions":
        np.set_printoptions(precision=3, threshold=5, edgeitems=1, linewidth=40)
    elif a == "same_options_first":
        BADS(lambda x: float(np.sum(np.asarray(x) ** 2) + 0.5 * np.random.randn()), x0=np.full((1, 2), 0.5), lower_bounds=np.full((1, 2), -3.0), upper_bounds=np.full((1, 2), 3.0),
             options=shared_options()).optimize()
    elif a == "printformatter":
        # earlier code installed NumPy print formatters (they apply to every later array-to-text conversion in the process)
        np.set_printoptions(formatter={"int_kind": lambda v: "<%d>" % v, "float_kind": lambda v: "%.2f~" % v})
    elif a == "run_1d_narrow":
        # a 1-D problem in a narrow box with enough evaluations for several search steps (its search populations are
        # thinned differently by gridding / de-duplication / projection than those of the problems under test)
        BADS(lambda x: float(np.sum((np.asarray(x) - 0.1) ** 2)), x0=np.full((1, 1), 0.05), lower_bounds=np.full((1, 1), -0.2), upper_bounds=np.full((1, 1), 0.3),
             options={"display": "off", "max_fun_evals": 30, "random_seed": 4}).optimize()
    elif a == "run_double_refit":
        # an unrelated optimisation whose GP refits take the second-fit branch (module-level training defaults must not remember it)
        BADS(lambda x: float(np.sum((np.asarray(x) + 0.3) ** 2)), x0=np.full((1, 1), 1.0), lower_bounds=np.full((1, 1), -4.0), upper_bounds=np.full((1, 1), 4.0),
             options={"display": "off", "max_fun_evals": 28, "random_seed": 8, "double_refit": True}).optimize()
    elif a == "construct_only":
        BADS(lambda x: 0.0, x0=np.zeros((1, 5)), plausible_lower_bounds=np.full((1, 5), -1.0), plausible_upper_bounds=np.full((1, 5), 1.0), options={"display": "off", "random_seed": 123})
    elif a == "run_noisy":
        BADS(lambda x: float(np.sum(np.asarray(x) ** 2) + np.random.randn()), x0=np.full((1, 2), 0.5), lower_bounds=np.full((1, 2), -3.0), upper_bounds=np.full((1, 2), 3.0),
             options={"display": "off", "max_fun_evals": 45, "uncertainty_handling": True, "noise_final_samples": 2}).optimize()
    elif a == "options_logging":
        import logging

        from pybads.bads.options import Options
        import pybads.bads.bads as bb

        path = os.path.join(os.path.dirname(os.path.realpath(bb.__file__)), "option_configs", "basic_bads_options.ini")
        Options(path, evaluation_parameters={"D": 7})
        logging.getLogger("BADS").setLevel(logging.DEBUG)
        np.seterr(all="warn")
    else:
        raise ValueError(a)


def run_case(p, slot1, slot2):
    def act(a):
        try:
            activity(a)
        except Exception:  # noqa  (an activity is only history; whether it succeeds is not the subject)
            pass

    for a in slot1:
        act(a)
    try:
        b, log, n = make_instance(p)
        for a in slot2:
            act(a)
        r = b.optimize()
    except Exception as e:  # noqa  (a run that only fails after a certain history depends on that history)
        return "EXC:%s:%s" % (type(e).__name__, str(e)[:60]), -1
    h = hashlib.sha256(log.digest())
    h.update(np.asarray(r["x"], float).tobytes())
    h.update(np.float64(r["fval"]).tobytes())
    h.update(np.float64(r["fsd"] if r["fsd"] is not None else np.nan).tobytes())
    h.update(("%d|%s" % (r["func_count"], r["message"])).encode())
    return h.hexdigest()[:20], n[0]


def drive(args):
    """In a fresh interpreter: list of (problem, slot1, slot2) cases executed back to back -> digests."""
    return [run_case(p, s1, s2) for p, s1, s2 in args]


def _spawn(item):
    cases, hashseed = item
    env = dict(os.environ)
    env["PYTHONPATH"] = "%s:%s" % (REPO, VERIF)
    env["PYTHONHASHSEED"] = str(hashseed)
    code = "import json,sys,warnings,logging; warnings.filterwarnings('ignore'); logging.disable(logging.CRITICAL)\n" \
           "from mc.props import c07\nprint('RESULT'+json.dumps(c07.drive(json.loads(sys.argv[1]))))"
    p = subprocess.run([sys.executable, "-c", code, json.dumps(cases)], capture_output=True, text=True, env=env, cwd=VERIF, timeout=1800)
    for line in p.stdout.splitlines():
        if line.startswith("RESULT"):
            return json.loads(line[6:])
    raise HarnessError("history driver failed: %s" % (p.stderr or p.stdout)[-400:])


def histories(quick):
    hs = [((), ())]
    for a in ACTS:
        hs += [((a,), ()), ((), (a,))]
    for a, b in itertools.product(ACTS, repeat=2):
        hs.append(((a,), (b,)))
        if not quick:
            hs.append(((a, b), ()))
            hs.append(((), (a, b)))
    return hs


def pkey(p):
    return "%s/x0-%s/D%d/mfe%d/seed%s" % (p["kind"], p["x0"], p["D"], p["mfe"], p.get("seed", 7))


def replay(case, key):
    """Reproduced iff the digests of {history-free run, run after the history} are not all identical; up to three
    attempts, because the defect being replayed may itself be non-deterministic (that *is* a C07 violation)."""
    if case.get("chain"):
        # the exact history: the chain prefix replayed back to back in one fresh interpreter vs the history-free reference
        co = _spawn((case["chain"], 0))
        ref = _spawn(([[case["p"], [], []]], 0))[0]
        return co[-1] != ref
    seen = set()
    for attempt in range(3):
        outs = pmap(_spawn, [([[case["p"], [], []]], attempt % 2), ([[case["p"], case["s1"], case["s2"]]], 0)])
        for o in outs:
            seen.add(o[0][0])
        if len(seen) > 1:
            return True
    return False


def run(ctx):
    rep = Report(ctx, "model_checking")
    q = ctx.quick
    ps = problems(q)
    hs = histories(q)
    # references: history-free, twice, under two hash seeds
    refs = {}
    r0 = pmap(_spawn, [([[p, [], []]], hsd) for p in ps for hsd in (0, 1)])
    for i, p in enumerate(ps):
        a, b = r0[2 * i][0], r0[2 * i + 1][0]
        if a != b:
            rep.violation("run differs between two fresh interpreters (hash seed 0 vs 1)", "fresh-process-differs/%s" % pkey(p), (a, b), dict(p=p, s1=[], s2=[]))
        refs[pkey(p)] = a
    cases = [(p, list(s1), list(s2)) for p in ps for (s1, s2) in hs if not (q and p["kind"] == "heavy" and len(s1) + len(s2) > 1)]
    if q:
        cases = [c for c in cases if (c[0]["D"] == 1 and c[0]["kind"] in ("det", "noisy") and c[0]["x0"] == "given") or len(c[1]) + len(c[2]) <= 1]
    outs = pmap(_spawn, [([list(c)], 0) for c in cases])
    acts = 0
    for (p, s1, s2), o in zip(cases, outs):
        acts += len(s1) + len(s2)
        if o[0] != refs[pkey(p)]:
            first = (s1 + s2)[0] if (s1 + s2) else "none"
            slot = "before-construction" if s1 and not s2 else ("between-construction-and-run" if s2 and not s1 else "both-slots")
            rep.violation("run with a fixed seed depends on process history", "history-dependent/%s/%s" % (p["kind"], slot), dict(problem=p, slot1=s1, slot2=s2, got=o[0], ref=refs[pkey(p)]), dict(p=p, s1=s1, s2=s2))
    # one long-lived interpreter chains a sequence of cases (ever-growing history)
    chain = [c for i, c in enumerate(cases) if i % (7 if q else 5) == 0][: (25 if q else 120)]
    co = _spawn(([list(c) for c in chain], 0))
    for i, ((p, s1, s2), o) in enumerate(zip(chain, co)):
        if o != refs[pkey(p)]:
            rep.violation("run with a fixed seed depends on process history (chained in one interpreter)", "history-dependent/%s/chained" % p["kind"],
                          dict(problem=p, slot1=s1, slot2=s2, position_in_chain=i), dict(p=p, s1=s1, s2=s2, chain=[list(c) for c in chain[: i + 1]]))
            break
    rep.set("states", len(cases) + len(chain))
    rep.set("transitions", acts + len(cases) + len(chain))
    rep.set("traces_validated_against_impl", len(cases) + len(chain) + 2 * len(ps))
    rep.set("problems", len(ps))
    rep.set("histories_per_problem", len(hs))
    rep.set("fresh_interpreter_cases", len(cases))
    rep.set("chained_cases", len(chain))
    rep.sample(dict(problem=ps[2], slot_before_construction=["runother"], slot_between_construction_and_run=["draw17"], reference_digest=refs[pkey(ps[2])]))
    rep.assumptions += ["activity alphabet: %s; at most %d activities per history" % (ACTS, 2)]
    return rep.finish(replay)
