"""C16 -- numerical failure of a GP hyperparameter fit never aborts the optimisation.
Fault enumeration over fit invocation indices: every single fault, every run of 2-4 consecutive faults, every
scattered pair; the C01/C03/C04/C05 monitors run on every faulted execution."""
from ..common import HarnessError, Report, pmap, pool
from ..e1 import _exec_fresh
from ..harness import execute

PID = "C16"
MON = ["C01", "C03", "C04", "C05"]


def job(D, mode, seed, faults=(), extra=None):
    o = {"max_fun_evals": {"det": 60 + 20 * D, "auto": 110, "decl": 110, "spec": 110}[mode], "noise_final_samples": 3}
    if extra:
        o.update(extra)
    return dict(D=D, geo="lin", x0="in", mode=mode, target="sphere_in", cons=None, seed=seed, opts=o, monitors=MON, script={"fit": sorted(faults)})


def patterns(F, quick):
    pats = set()
    for j in range(F):
        for L in (1, 2, 3, 4):
            if j + L <= F + 1:
                pats.add(tuple(range(j, j + L)))
    for j1 in range(F):
        for j2 in range(j1 + 2, F):
            if quick and (j2 - j1) % 2 == 1 and j1 > 1:
                continue
            pats.add((j1, j2))
    return sorted(pats)


def _exec(j):
    return j, execute(j)


def judge(j, res):
    v = []
    if res["exc"] is not None:
        v.append(("aborted/%s|%s" % (res["exc"], j["mode"]), res["exc_msg"]))
    for prop, clause, key, detail, cnt in res["viol"]:
        v.append(("guarantee/%s/%s" % (prop, key), "%s: %s" % (clause, detail)))
    return v


def replay(case, key):
    res = _exec_fresh(case)
    return any(("C16/" + k) == key for k, _ in judge(case, res))


def site_class(res, j):
    """where the first injected failure landed"""
    out = set()
    sites = {a: (ph, nc) for a, ph, nc in res["fit_sites"]}
    prev = None
    for f in j["script"]["fit"]:
        if f not in sites:
            continue
        ph, nc = sites[f]
        if ph in ("init", "pre", "gpinit"):
            out.add("initial-training")
        elif prev is not None and f == prev + 1:
            out.add("inside-retry-loop")
        else:
            out.add("local-refit-first-attempt/" + ph)
        prev = f
    return out


def run(ctx):
    rep = Report(ctx, "fault_enumeration")
    q = ctx.quick
    seed = ctx.seeds(1, 1)[0]
    rep.assumptions += ["GP fit failure modelled as numpy.linalg.LinAlgError raised on entry of gpyreg GP.fit at chosen invocation indices",
                        "ten failures in a row exhaust the retry loop by design and are outside the statement's '2-4'"]
    cfgs = [(D, m) for D in (1, 2) for m in ("det", "auto", "decl", "spec") if not (q and D == 2 and m in ("auto",))]
    bases = [job(D, m, seed) for D, m in cfgs]
    # other valid GP mean functions (their hyperparameters have different priors / no priors)
    bases += [job(D, m, seed, extra={"gp_mean_fun": mf, "max_fun_evals": 45 if m == "det" else 75}) for D in (1, 2) for m in ("det", "decl") for mf in ("zero", "negquad")
              if not (q and D == 2 and m == "decl")]
    bases += [job(D, m, seed, extra={"gp_warnings": True, "max_fun_evals": 45 if m == "det" else 75}) for D in (1,) for m in ("det", "spec")]
    # options that steer the retry logic itself: no noise nudge, slice-sampled restart points, forced double refit
    bases += [job(D, m, seed, extra=dict(o, max_fun_evals=45 if m == "det" else 75)) for D in (1, 2) for m in ("det", "spec")
              for o in ({"noise_nudge": None}, {"use_slice_sampler": True}, {"double_refit": True}, {"noise_nudge": [1.0]},
                        {"use_slice_sampler": True, "noise_nudge": [5.0, 1.0]}, {"use_slice_sampler": True, "noise_nudge": [3.0, 1.0]}) if not (q and D == 2 and m == "spec")]
    jobs = []
    for b, r in zip(bases, pmap(execute, bases)):
        if r["exc"] is not None:
            rep.abort(r["exc"])
            continue
        F = r["fit_count"]
        if F < 4:
            raise HarnessError("baseline %s has only %d fits" % (b, F))
        for p in patterns(F, q):
            jobs.append(dict(b, script={"fit": list(p)}))
    out = list(pool().imap_unordered(_exec, jobs, chunksize=4))
    classes = set()
    nontrivial = set()
    for j, res in out:
        for key, detail in judge(j, res):
            rep.violation("optimisation aborted or lost a guarantee after injected GP fit failure(s)", key, detail, j)
        sc = site_class(res, j)
        classes |= sc
        for s in sc:
            nontrivial.add((s, len(j["script"]["fit"]), j["mode"]))
    rep.set("evaluations", len(out) + len(bases))
    rep.set("distinct_nontrivial", len(nontrivial))
    rep.set("rule", "every single fit index, every run of 2-4 consecutive indices, every scattered pair, per baseline; distinct = distinct (site class of the failure, number of faults, noise mode)")
    rep.set("site_classes", sorted(classes))
    for j, res in out[:3]:
        rep.sample(dict(mode=j["mode"], D=j["D"], fit_faults=j["script"]["fit"], completed=res["exc"] is None, calls=res["n_calls"]))
    if not {"initial-training", "inside-retry-loop"} <= classes:
        raise HarnessError("fault positions did not cover the site classes: %s" % sorted(classes))
    return rep.finish(replay)
