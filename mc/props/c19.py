"""C19 -- iteration history and OptimizeResult are consistent records of the run.
Run level: every recorded iteration of explored executions (all modes) vs the call log, result fields vs the
problem and the final probe, copy isolation (mutate every reachable array, re-run the same instance);
E2: BFS over IterationHistory / OptimizeResult operation histories against a dict-of-lists reference."""
import copy

import numpy as np

from ..bfs import bfs
from ..common import Report, pmap
from ..e1 import E1Sink, gate, replay_case, vacuity_floor
from ..explore import explore
from ..optsweep import sweep_jobs

PID = "C19"
MON = ["C19", "C19iso"]
_replay_e1 = replay_case(PID)


def job(D, geo, mode, target, seed, mfe, nfs=2, cons=None, opts=None, base="F", rerun=False):
    o = {"max_fun_evals": mfe, "noise_final_samples": nfs}
    if opts:
        o.update(opts)
    return dict(D=D, geo=geo, x0="in", mode=mode, target=target, cons=cons, seed=seed, opts=o, monitors=MON, base=base, script={}, rerun=rerun)


# ------------------------------------------------------------------ container BFS
KEYS = ("a", "b")
VALS = {"scalar": lambda: 1.5, "list": lambda: [1.0, 2.0], "array": lambda: np.array([3.0, 4.0]),
        "nested": lambda: {"w": np.array([5.0, 6.0]), "l": [7.0, [8.0, 9.0]]}}


def _mut(v):
    """In-place mutation of the caller's object after it was handed over (nested members included)."""
    if isinstance(v, list):
        for x in v:
            _mut(x)
        v[0] = -99.0
    elif isinstance(v, np.ndarray):
        v += 100.0
    elif isinstance(v, dict):
        for x in v.values():
            _mut(x)
        v["extra"] = 1


def _norm(v):
    if isinstance(v, np.ndarray):
        return ("arr", tuple(np.ravel(v).tolist()))
    if isinstance(v, list):
        return ("list", tuple(_norm(x) for x in v))
    if isinstance(v, dict):
        return ("dict", tuple(sorted((k, _norm(x)) for k, x in v.items())))
    return ("val", v)


def hist_ops():
    ops = []
    for key in KEYS + ("zz",):
        for it in (-1, 0, 1, 3):
            for vn in VALS:
                ops.append(("record", key, it, vn))
    for it in (-1, 0, 2):
        ops.append(("record_iteration", ("a", "b"), it, "list"))
        ops.append(("record_iteration", ("a", "zz"), it, "array"))
    for key in KEYS + ("zz",):
        ops.append(("setitem", key, None, "none"))
        ops.append(("delitem", key, None, None))
    return ops


def hist_step(real, ref, op):
    """ref: dict key -> list (None padded) ; deleted keys absent."""
    kind, key, it, vn = op
    out = []
    before = copy.deepcopy(ref)

    def expect_reject(fn, why):
        try:
            fn()
            out.append(("hist-accepts-invalid/%s" % why, op))
        except ValueError:
            pass
        except Exception as e:  # noqa
            out.append(("hist-wrong-exception/%s/%s" % (why, type(e).__name__), op))

    if kind == "record":
        v = VALS[vn]()
        if it < 0 or key not in ref:
            expect_reject(lambda: real.record(key, v, it), "record")
        else:
            try:
                real.record(key, v, it)
                _mut(v)
                lst = ref[key]
                while len(lst) <= it:
                    lst.append(None)
                lst[it] = _norm(VALS[vn]())
            except Exception as e:  # noqa
                out.append(("hist-record-raised/%s" % type(e).__name__, op))
    elif kind == "record_iteration":
        vals = {k: VALS[vn]() for k in key}
        if it < 0 or any(k not in ref for k in key):
            snap = copy.deepcopy(ref)
            expect_reject(lambda: real.record_iteration(vals, it), "record_iteration")
            if it >= 0:
                # keys before the first invalid one may have been recorded: statement says nothing -> re-sync reference
                for k in key:
                    if k in ref and dict.__getitem__(real, k) is not None:
                        ref[k] = [None if x is None else _norm(x) for x in list(dict.__getitem__(real, k))]
                return out
        else:
            try:
                real.record_iteration(vals, it)
                for v in vals.values():
                    _mut(v)
                for k in key:
                    lst = ref[k]
                    while len(lst) <= it:
                        lst.append(None)
                    lst[it] = _norm(VALS[vn]())
            except Exception as e:  # noqa
                out.append(("hist-record-iteration-raised/%s" % type(e).__name__, op))
    elif kind == "setitem":
        if key not in ref:
            expect_reject(lambda: real.__setitem__(key, None), "setitem")
        else:
            real[key] = None
            ref[key] = []
    elif kind == "delitem":
        if key in ref:
            del real[key]
            del ref[key]
        else:
            try:
                del real[key]
                out.append(("hist-del-missing-accepted", op))
            except KeyError:
                pass
    # compare
    if sorted(dict.keys(real)) != sorted(ref.keys()):
        out.append(("hist-keys-differ", (sorted(dict.keys(real)), sorted(ref.keys()))))
    else:
        for k in ref:
            rv = dict.__getitem__(real, k)
            got = [] if rv is None else [None if x is None else _norm(x) for x in list(rv)]
            if got != ref[k]:
                out.append(("hist-content-differs", (k, got, ref[k], op)))
    if len(real) != len(ref):
        out.append(("hist-len", (len(real), len(ref))))
    return out


def canon_hist(ref):
    return repr(sorted(ref.items()))


def run_hist_bfs(depth):
    from pybads.utils.iteration_history import IterationHistory

    bad = {}

    def onv(v, hist):
        bad.setdefault(v[0], (v[1], hist[-4:]))

    mk = lambda: (IterationHistory(list(KEYS)), {k: [] for k in KEYS})
    st = bfs(None, {k: [] for k in KEYS}, hist_ops(), hist_step, canon_hist, depth, onv, make=mk)
    return st, bad


def result_container_check(_):
    """OptimizeResult as a container: every documented key settable/readable both ways with a deep copy;
    unknown keys rejected."""
    from pybads.bads.optimize_result import OptimizeResult

    from ..monitors import RESULT_KEYS

    bad = {}
    n = 0
    for key in RESULT_KEYS:
        for vn in VALS:
            r = OptimizeResult()
            v = VALS[vn]()
            n += 1
            try:
                r[key] = v
                _mut(v)
                a = r[key]
                b = getattr(r, key)
                if _norm(a) != _norm(VALS[vn]()) or _norm(b) != _norm(VALS[vn]()):
                    bad.setdefault("result-not-a-copy/%s" % key, vn)
            except Exception as e:  # noqa
                bad.setdefault("result-set-get-failed/%s" % key, repr(e)[:80])
            for how in ("update", "setdefault"):
                r = OptimizeResult()
                v = VALS[vn]()
                n += 1
                try:
                    if how == "update":
                        r.update({key: v})
                    else:
                        r.setdefault(key, v)
                    _mut(v)
                    if _norm(r[key]) != _norm(VALS[vn]()):
                        bad.setdefault("result-not-a-copy/%s/%s" % (how, key), vn)
                except Exception as e:  # noqa
                    bad.setdefault("result-set-get-failed/%s/%s" % (how, key), repr(e)[:80])
    for key in ("nope", "X", "fvals", ""):
        r = OptimizeResult()
        n += 1
        try:
            r[key] = 1
            bad.setdefault("result-unknown-key-accepted", key)
        except ValueError:
            pass
        except Exception as e:  # noqa
            bad.setdefault("result-unknown-key-wrong-exception", (key, type(e).__name__))
        # the other ways of writing into a mapping obey the same contract (unknown keys rejected, values copied)
        for how, fn in (("update", lambda: r.update({key: 1})), ("update-kw", lambda: r.update(**{key: 1}) if key.isidentifier() else r.update({key: 1})),
                        ("setdefault", lambda: r.setdefault(key, 1)), ("ior", lambda: r.__ior__({key: 1}))):
            n += 1
            try:
                fn()
                bad.setdefault("result-unknown-key-accepted/%s" % how, key)
            except ValueError:
                pass
            except Exception as e:  # noqa
                bad.setdefault("result-unknown-key-wrong-exception/%s" % how, (key, type(e).__name__))
        try:
            r[key]
            bad.setdefault("result-unknown-key-readable", key)
        except KeyError:
            pass
        try:
            getattr(r, key or "_empty_")
            bad.setdefault("result-unknown-attr-readable", key)
        except AttributeError:
            pass
    return n, bad


def replay(case, key):
    if isinstance(case, dict) and case.get("kind") == "hist":
        st, bad = run_hist_bfs(case["depth"])
        return any(("C19/" + k) == key for k in bad)
    if isinstance(case, dict) and case.get("kind") == "result-container":
        n, bad = result_container_check(0)
        return any(("C19/" + k) == key for k in bad)
    return _replay_e1(case, key)


def run(ctx):
    rep = Report(ctx, "model_checking")
    q = ctx.quick
    seeds = ctx.seeds(1, 2)
    depth = 3 if q else 4
    st_h, bad = run_hist_bfs(depth)
    for k, d in bad.items():
        rep.violation("IterationHistory differs from the dict-of-lists reference / accepts an invalid operation", k, d, dict(kind="hist", depth=depth))
    n_rc, bad = result_container_check(0)
    for k, d in bad.items():
        rep.violation("OptimizeResult container contract broken", k, d, dict(kind="result-container"))
    rep.set("history_bfs", st_h)
    rep.set("result_container_cells", n_rc)
    rep.sample(dict(history_ops=[str(o) for o in hist_ops()[:4]], depth=depth))
    ng = gate([job(1, "lin", "spec", "sphere_in", seeds[0], 60, nfs=1)])
    sink = E1Sink(rep, PID)
    Ds = (1, 2)
    base = []
    for D in Ds:
        for g in ("lin", "log", "unb"):
            for m in ("det", "auto", "decl", "spec"):
                for nfs in ((1, 3) if q else (0, 1, 3)):
                    if m == "det" and nfs != 3:
                        continue
                    for c in (None, "ball") if (m == "det" and g != "unb") else (None,):
                        if g == "unb" and m not in ("det", "decl"):
                            continue
                        base.append(job(D, g, m, "sphere_in" if m != "det" else "adv", seeds[0], (30 + 15 * D) if m == "det" else 62, nfs=nfs, cons=c,
                                        opts={"tol_mesh": 2.0**-4} if m == "det" else None, rerun=(D == 1)))
    base += [job(D, "lin", m, "sphere_in" if m != "det" else "adv", 0, 35 if m == "det" else 60, opts={"tol_mesh": 2.0**-4} if m == "det" else None) for D in Ds for m in ("det", "decl")]  # random_seed = 0
    # Sto-BADS variants (uncertain-interval success rule) with several interval widths
    base += [dict(job(D, "lin", m, "sphere_in", s, 64, nfs=2, opts={"stobads": True}), gamma=g) for D in Ds for m in ("decl", "spec") for g in (None, 5.0, 50.0) for s in seeds]
    # problems mixing bounded and unbounded variables (problem_type), fully unbounded ones, and a caller that goes on
    # writing into its own x0 / bound arrays after construction (the result must describe the problem as it was constructed)
    base += [job(D, g, m, "sphere_in", seeds[0], 40 if m == "det" else 60) for D in (2, 3) for g in ("mixunb", "mixed", "unb") for m in ("det", "decl")]
    base += [dict(job(D, g, m, "sphere_in", seeds[0], 40 if m == "det" else 60), scribble_inputs=True) for D in (1, 2) for g in ("lin", "log", "unb") for m in ("det", "spec")]
    base += [dict(job(D, "lin", m, "sphere_in", seeds[0], 40 if m == "det" else 60), reseed_after_construct=rs_) for D in (1, 2) for m in ("det", "decl") for rs_ in (5, 0)]
    st = explore(base, ["ans", "noise"], 0, sink, name="runs/b0")
    nz = [job(D, "lin", m, "sphere_in", seeds[0], 62, nfs=nfs) for D in ((1,) if q else (1, 2)) for m in ("auto", "decl", "spec") for nfs in (1, 3)]
    st = explore(nz, ["noise"], 1, sink, stats=st, name="noisy/noise-b1", pos_ok=lambda k, p, r: (p % 2 == 0 and p >= 28) if q else True,
                 cap=None if q else st["executions"] + 12000)
    dt = [job(D, g, "det", "adv", seeds[0], 30 + 15 * D, opts={"tol_mesh": 2.0**-4}, base=b) for D in Ds for g in ("lin", "log") for b in ("F", "S4")]
    st = explore(dt, ["ans"], 1, sink, stats=st, name="det/ans-b1", pos_ok=(lambda k, p, r: p < 14) if q else None)
    sw = sweep_jobs(lambda D, m, o: job(D, "lin", m, "sphere_in", seeds[0], 45 if m == "det" else 64, nfs=o.pop("noise_final_samples", 2), opts=o), q, modes=("det", "decl", "spec"))
    st = explore(sw, ["ans", "noise"], 0, sink, stats=st, name="option-variants")
    sink.finish_cov(st)
    rep.set("states", max(1, st_h["states"] + len(sink.states)))
    rep.set("transitions", max(1, st_h["transitions"] + len(sink.trans)))
    rep.set("arrays_mutated_for_isolation", sink.stat_tot.get("iso_arrays_mutated", 0))
    rep.set("gate_jobs", ng)
    vacuity_floor(rep, sink, 100)
    return rep.finish(replay)
