"""C09 -- every valid problem runs to completion in every supported mode.
E1 over mode x constraint x geometry x D x budget x final samples with answer/noise scripts, single NaN
predictions at the incumbent and single GP-fit faults; any exception that the harness did not inject and that
escapes optimize() (or a valid construction) is a violation keyed by its innermost pybads frame."""
from ..common import Report, pmap
from ..e1 import E1Sink, gate, replay_case, vacuity_floor
from ..explore import explore
from ..optsweep import sweep_jobs
from ..harness import execute
from .c02 import cons_spec, slab_start

PID = "C09"
MON = []


def cfg_class(job):
    return "%s/%s/%s/D%d" % (job.get("mode", "det"), (job.get("cons") or ["nocons"])[0] if isinstance(job.get("cons"), list) else (job.get("cons") or "nocons"),
                             job.get("geo"), job["D"])


def replay(case, key):
    from ..e1 import _exec_fresh

    res = _exec_fresh(case)
    return res["exc"] is not None and key.split("/crash/")[1].split("|")[0] == res["exc"]


def job(D, geo, mode, cons, seed, target=None, base="F", opts=None, script=None):
    o = {}
    if mode == "det":
        o.update({"tol_mesh": 2.0**-4, "max_fun_evals": 30 + 15 * D})
    else:
        o.update({"max_fun_evals": 60, "noise_final_samples": 3})
    if opts:
        o.update(opts)
    c = cons if (cons is None or isinstance(cons, list)) else cons_spec(cons, geo, D)
    x0 = slab_start(geo, D) if cons == "slab" else "in"
    return dict(D=D, geo=geo, x0=x0, mode=mode, target=target or ("adv" if mode == "det" else "sphere_in"), cons=c, base=base,
                seed=seed, opts=o, monitors=MON, script=script or {})


def run(ctx):
    rep = Report(ctx, "model_checking")
    q = ctx.quick
    seeds = ctx.seeds(1, 2)
    rep.assumptions += ["well-behaved targets only (finite real values, positive finite SDs); budgets >= initial design size",
                        "GP misbehaviour modelled as LinAlgError on entry of GP.fit and NaN prediction at the incumbent; seeds %s" % seeds]
    ng = gate([job(1, "lin", "spec", None, seeds[0]), job(2, "log", "det", "annulus", seeds[0], script={"ans": {"3": "E"}})])
    sink = E1Sink(rep, PID, crash_is_violation=True, cfg_class=cfg_class)
    Ds = (1, 2) if q else (1, 2, 3)
    geos = ("lin", "log", "mixed", "mixunb")
    conss = (None, "half", "ball", "slab", "annulus")
    # (a) complete product, b=0
    base = []
    for D in Ds:
        for g in geos:
            if g in ("mixed", "mixunb") and D == 1:
                continue
            for m in ("det", "auto", "decl", "spec"):
                for c in conss:
                    if c == "slab" and g in ("mixed", "mixunb"):
                        continue
                    for s in seeds:
                        base.append(job(D, g, m, c, s))
    st = explore(base, ["ans", "noise"], 0, sink, name="matrix/b0")
    # (b) corner landscapes under specified noise (repeated observations => merge path), default + larger budgets
    cor = [job(D, g, m, c, s, target="sphere_corner", opts={"max_fun_evals": b}) for D in Ds for g in ("lin", "log") for m in ("spec", "decl", "det")
           for c in (None, "ball") for b in ((80,) if q else (80, 150)) for s in seeds]
    st = explore(cor, ["ans", "noise"], 0, sink, stats=st, name="corner/b0")
    # (b2) degenerate but well-behaved landscapes: constant target (all observations tie), very large / very small scale
    deg = [job(D, g, m, c, seeds[0], target=t) for D in Ds[:2] for g in ("lin", "log") for m in ("det", "auto", "decl", "spec") for c in (None, "ball")
           for t in ("const", "sphere_big", "sphere_small", "plateau") if not (q and c == "ball" and g == "log")]
    deg += [dict(job(D, g, m, None, seeds[0], target=t), noise_scale=0.0) for D in Ds[:2] for g in ("lin", "log") for m in ("decl", "spec") for t in ("const", "plateau", "sphere_in")]
    st = explore(deg, ["ans", "noise"], 0, sink, stats=st, name="degenerate-landscapes/b0")
    sto = [dict(job(D, "lin", m, c, seeds[0], opts={"stobads": True}), gamma=g) for D in Ds[:2] for m in ("auto", "decl", "spec") for c in (None, "ball") for g in (None, 5.0, 50.0)]
    # noisy modes with empty search sets (thin feasible band) under the incumbent rules that judge an "improvement" by uncertainty alone
    sto += [job(D, "lin", m, "slab", seeds[0], opts=o) for D in (1, 2) for m in ("decl", "spec", "auto") for o in ({"stobads": True}, {"improvement_quantile": 0.7}, {"improvement_quantile": 0.3})]
    # empty search sets together with the hedge settings that touch the search set when scoring (hedge_gamma = 0)
    sto += [job(D, "lin", m, "slab", seeds[0], opts=o) for D in (1, 2) for m in ("det", "decl") for o in ({"hedge_gamma": 0.0}, {"hedge_gamma": 0.0, "n_search_iter": 3}, {"hedge_decay": 0.5})]
    st = explore(sto, ["noise"], 0, sink, stats=st, name="stobads/b0")
    # (c) budget windows above the initial design x final samples (noisy) and deterministic
    n0 = {}
    probe = [job(D, "lin", m, None, seeds[0], opts={"max_fun_evals": 90}) for m in ("auto", "decl", "spec") for D in (1, 2)]
    for j, r in zip(probe, pmap(execute, probe)):
        n0[(j["mode"], j["D"])] = r["n_init"]
    bw = []
    for (m, D), n in sorted(n0.items()):
        for nfs in ((1, 3) if q else (0, 1, 3)):
            for mfe in range(n, n + 2 * D + nfs + 7, 2 if q else 1):
                bw.append(job(D, "lin", m, None, seeds[0], opts={"max_fun_evals": mfe, "noise_final_samples": nfs}))
    for D in (1, 2):
        for mfe in range({1: 4, 2: 6}[D], {1: 4, 2: 6}[D] + 2 * D + 7):
            bw.append(job(D, "lin", "det", None, seeds[0], opts={"max_fun_evals": mfe, "tol_mesh": 1e-6}, base="S4"))
    # budgets below the initial design (outside C03's precondition, but still valid problems that must run to completion)
    bw += [job(D, "lin", m, None, seeds[0], target="sphere_in", opts={"max_fun_evals": mfe, "noise_final_samples": nfs})
           for D in (1, 2) for m in ("det", "auto", "decl", "spec") for mfe in (1, 2, 3, 5, 10, 20, 31, 32) for nfs in ((3,) if q else (0, 1, 3, 10))]
    st = explore(bw, ["ans", "noise"], 0, sink, stats=st, name="budget-windows/b0")
    # (d) deterministic answer scripts (ties, success right before termination)
    adv = [job(D, g, "det", c, seeds[0], base=b) for D in Ds[:2] for g in ("lin", "log") for c in (None, "ball") for b in ("F", "E3")]
    # success-rich policies: many successful polls while the mesh is already at its maximum (overflow warning path), also with a float-valued threshold
    rich = [job(D, g, "det", None, seeds[0], base=b, opts=o) for D in (1, 2, 3) for g in ("lin", "unb") for b in ("S", "S2", "S3", "S4")
            for o in ({}, {"mesh_overflow_warning": 1.0}, {"mesh_overflow_warning": 2}, {"poll_mesh_multiplier": 2}, {"poll_mesh_multiplier": 3})]
    st = explore(rich, ["ans"], 0, sink, stats=st, name="det/success-rich")
    st = explore(adv, ["ans"], 1 if q else 2, sink, stats=st, name="det/ans-b", pos_ok=(lambda k, p, r: p < 12) if q else (lambda k, p, r: p < 20),
                 cap=None if q else st["executions"] + 15000)
    # (e) noise scripts
    nz = [job(D, "lin", m, None, seeds[0]) for D in Ds[:2] for m in ("decl", "spec")]
    st = explore(nz, ["noise"], 1, sink, stats=st, name="noisy/noise-b1", pos_ok=lambda k, p, r: p % (8 if q else 2) == 0)
    # (f) non-finite GP prediction at the incumbent, every invocation index (single)
    pr = [dict(job(D, "lin", m, None, seeds[0]), pred_points=True) for D in Ds[:2] for m in ("decl", "spec", "auto")]
    st = explore(pr, ["pred"], 1, sink, stats=st, name="pred-nan/b1", pos_ok=(lambda k, p, r: p % 3 == 0) if q else None)
    # (g) single GP fit faults (multi-fault patterns belong to C16)
    ft = [job(D, "lin", m, None, seeds[0]) for D in Ds[:2] for m in ("det", "decl", "spec")]
    st = explore(ft, ["fit"], 1, sink, stats=st, name="fit-fault/b1")
    sw = sweep_jobs(lambda D, m, o: job(D, "lin", m, None if D == 1 else "ball", seeds[0], target="sphere_in", opts=o), q, modes=("det", "auto", "decl", "spec"))
    st = explore(sw, ["ans", "noise"], 0, sink, stats=st, name="option-variants")
    from ..optsweep import C09_EXTRA
    ex = [job(D, "lin", m, c, seeds[0], target="sphere_in", opts=dict(v)) for v in C09_EXTRA for D in (1, 2) for m in ("det", "decl", "spec") for c in (None,)
          if not (q and D == 2 and m == "decl")]
    ex += [dict(job(D, g, m, c, seeds[0], target="sphere_in"), target_obj=True) for D in (1, 2) for g in ("lin",) for m in ("det", "spec") for c in (None, "ball_c", "half_c")]
    # specified noise requested by specify_target_noise alone; a target that overwrites its argument in place
    ex += [dict(job(D, g, "spec", c, seeds[0], target="sphere_in"), spec_only=True) for D in (1, 2) for g in ("lin", "log") for c in (None, "ball")]
    ex += [dict(job(D, g, m, None, seeds[0], target="sphere_in"), mutate_arg=True) for D in (1, 2) for g in ("lin", "log", "unb") for m in ("det", "spec")]
    st = explore(ex, ["ans", "noise"], 0, sink, stats=st, name="value-spellings/b0")
    sink.finish_cov(st)
    rep.set("gate_jobs", ng)
    vacuity_floor(rep, sink, 100)
    return rep.finish(replay)
