"""C20 -- options: user settings win, unknown names rejected, no leaks between instances.
E3: every option name of the two ini files overridden alone, all pairs of a core set, D in {1,2,3,7};
E2: every valid interleaving of construct/run events of three instances (two sharing D), each in a fresh
interpreter, options of every live instance compared with its own expected snapshot after every event;
caller-owned dict / arrays compared before vs after."""
import configparser
import hashlib
import copy
import itertools
import json
import logging
import os
import subprocess
import sys

import numpy as np

from ..common import HarnessError, REPO, Report, VERIF, pmap

PID = "C20"
CORE = ["max_fun_evals", "max_iter", "tol_mesh", "tol_fun", "tol_stall_iters", "uncertainty_handling", "noise_final_samples",
        "noise_size", "random_seed", "complete_poll", "accelerate_mesh", "search_n_try"]
CORE_VALUES = {"max_fun_evals": 77, "max_iter": 9, "tol_mesh": 3e-5, "tol_fun": 7e-3, "tol_stall_iters": 6, "uncertainty_handling": True,
               "noise_final_samples": 4, "noise_size": 0.37, "random_seed": 0, "complete_poll": True, "accelerate_mesh": False, "search_n_try": 5}
# names whose value is interpreted during construction: a type-plausible alternative instead of a sentinel
SPECIAL = {"specify_target_noise": None, "cache_size": 37, "fun_values": {}, "periodic_vars": None, "gp_mean_fun": "zero", "f_vals": None,
           "display": "off", "random_seed": 11, "nonlinear_scaling": False, "init_mesh_size_integer": -1, "poll_mesh_multiplier": 2.0,
           "search_grid_multiplier": 2, "search_grid_number": 9, "tol_mesh": 3e-5, "uncertainty_handling": True, "stobads": True}
OWN_RUN_REWRITES = {"max_fun_evals", "noise_final_samples", "tol_stall_iters", "n_train_max", "n_train_min", "mesh_overflow_warning",
                    "min_failed_poll_steps", "mesh_noise_multiplier", "noise_size", "fun_eval_start", "stobads", "specify_target_noise", "uncertainty_handling"}
NORMALISED = {"stobads", "specify_target_noise", "uncertainty_handling"}


def ini_paths():
    import pybads.bads.bads as bb

    d = os.path.join(os.path.dirname(os.path.realpath(bb.__file__)), "option_configs")
    return [os.path.join(d, "basic_bads_options.ini"), os.path.join(d, "advanced_bads_options.ini")]


def read_ini(path):
    """Own reader (same conventions as documented: '#' lines are descriptions)."""
    conf = configparser.ConfigParser(comment_prefixes="", allow_no_value=True)
    conf.optionxform = str
    conf.read(path)
    out = []
    for sec in conf.sections():
        for k, v in conf.items(sec):
            if "#" not in k:
                out.append((k, v))
    return out


class _Self(dict):
    def get(self, k, d=None):
        return dict.get(self, k, d)


def reference_options(D, user):
    """Reference evaluation of the defaults for dimension D with user overrides winning."""
    ref = _Self()
    ref.update(user)
    for path in ini_paths():
        for k, expr in read_ini(path):
            if k in user:
                continue
            ref[k] = eval(expr, {"np": np, "D": D, "self": ref})
    return ref


def same(a, b):
    if callable(a) and callable(b):
        try:
            y = np.array([1.0, 2.0, 4.0])
            return a(3.0, y) == b(3.0, y)
        except Exception:  # noqa
            return True
    if isinstance(a, np.ndarray) or isinstance(b, np.ndarray):
        try:
            return np.array_equal(np.asarray(a), np.asarray(b), equal_nan=True)
        except Exception:  # noqa
            return False
    if isinstance(a, float) and isinstance(b, float) and np.isnan(a) and np.isnan(b):
        return True
    try:
        return bool(a == b)
    except Exception:  # noqa
        return False


def compare_options(opts, ref, user, skip=()):
    bad = []
    for k, v in ref.items():
        if k in skip:
            continue
        if k not in opts:
            bad.append(("option-missing", k))
            continue
        got = opts[k]
        if k in user:
            if not (got is user[k] or same(got, user[k])):
                bad.append(("user-option-overwritten/%s" % k, (repr(got)[:40], repr(user[k])[:40])))
        elif not same(got, v):
            bad.append(("default-differs/%s" % k, (repr(got)[:40], repr(v)[:40])))
    return bad


def construct(D, user):
    from pybads import BADS

    calls = [0]

    def f(x):
        calls[0] += 1
        trace.append(np.asarray(x, float).ravel().tolist())
        return float(np.sum((np.asarray(x) - 0.37) ** 2))

    trace = []
    b = BADS(f, x0=np.zeros((1, D)), lower_bounds=np.full((1, D), -5.0), upper_bounds=np.full((1, D), 5.0),
             plausible_lower_bounds=np.full((1, D), -2.0), plausible_upper_bounds=np.full((1, D), 2.0), options=user)
    try:
        b._verif_trace = trace
    except Exception:  # noqa
        pass
    return b


def single_block(args):
    D, names = args
    out = []
    n = 0
    for i, name in enumerate(names):
        n += 1
        val = SPECIAL[name] if name in SPECIAL else 0.123456 + 0.001 * i
        user = {"display": "off", name: val} if name != "display" else {"display": "off"}
        if name == "specify_target_noise":
            user = {"display": "off", "specify_target_noise": True, "uncertainty_handling": True}
        before = copy.deepcopy(user)
        try:
            b = construct(D, user)
        except Exception as e:  # noqa
            out.append(("single-override-construction-failed/%s" % name, repr(e)[:100], (D, name)))
            continue
        ref = reference_options(D, user)
        for k, d in compare_options(b.options, ref, user, skip=NORMALISED - set(user)):
            out.append((k + "|single:%s" % name if not k.startswith("user-option") else k, d, (D, name)))
        if not same(user, before) or list(user.keys()) != list(before.keys()):
            out.append(("caller-options-dict-mutated", name, (D, name)))
    return n, out


def pair_block(args):
    D, pairs = args
    out = []
    n = 0
    for a, b_ in pairs:
        n += 1
        user = {"display": "off", a: CORE_VALUES[a], b_: CORE_VALUES[b_]}
        try:
            b = construct(D, user)
        except Exception as e:  # noqa
            out.append(("pair-override-construction-failed/%s+%s" % (a, b_), repr(e)[:100], (D, a, b_)))
            continue
        ref = reference_options(D, user)
        for k, d in compare_options(b.options, ref, user, skip=NORMALISED - set(user)):
            out.append((k, d, (D, a, b_)))
    return n, out


def all_core(args):
    D = args[0]
    allc = {"display": "off"}
    allc.update(CORE_VALUES)
    b = construct(D, allc)
    return 1, [(k, d, [D]) for k, d in compare_options(b.options, reference_options(D, allc), allc, skip=NORMALISED - set(allc))]


def seed_effect(_):
    """'Takes effect with exactly the supplied value' for random_seed: right after construction with seed s the global
    generator must be in the state np.random.seed(s) puts it in (x0 given, so construction draws nothing)."""
    out = []
    n = 0
    for D in (1, 2):
        for s in (0, 1, 12345):
            n += 1
            np.random.seed(987)
            np.random.rand(5)
            construct(D, {"display": "off", "random_seed": s})
            got = np.random.rand(4)
            np.random.seed(s)
            ref = np.random.rand(4)
            if not np.array_equal(got, ref):
                out.append(("user-option-without-effect/random_seed", s, [D, s]))
    return n, out


def unknown_names(_):
    out = []
    n = 0
    for D in (1, 3):
        for name in ("max_fun_eval", "MAX_FUN_EVALS", "", "Maximum number of function evaluations", "tolmesh", "useroptions "):
            n += 1
            try:
                construct(D, {"display": "off", name: 1})
                out.append(("unknown-option-accepted/%s" % (name or "<empty>"), name, (D, name)))
            except ValueError:
                pass
            except Exception as e:  # noqa
                out.append(("unknown-option-wrong-exception/%s" % type(e).__name__, name, (D, name)))
    return n, out


# ------------------------------------------------------------------ E2 driver (fresh interpreter per history)
INST = {"A": (2, {"tol_fun": 7e-3, "max_fun_evals": 11, "search_method": [("ES-wcm", 1), ("ES-ell", 1)]}),
        "B": (3, {"max_fun_evals": 13, "uncertainty_handling": True, "noise_final_samples": 1, "tol_mesh": 1e-3}),
        "C": (2, {"max_fun_evals": 12, "display": "full", "noise_size": 0.5})}


SEEDS = {"A": 3, "B": 4, "C": 5}   # distinct, so that another instance's seeding is visible in the global generator


def histories(maxlen):
    evs = [("new", k) for k in INST] + [("run", k) for k in INST] + [("poke", "A")]
    out = []

    def rec(h):
        if h:
            out.append(list(h))
        if len(h) >= maxlen:
            return
        for e in evs:
            if e in h:
                continue
            if e[0] in ("run", "poke") and ("new", e[1]) not in h:
                continue
            rec(h + [e])

    rec([])
    return out


def _digest(b, res):
    return [np.asarray(res["x"], float).ravel().tolist(), float(res["fval"]), int(res["func_count"]), str(res["message"]),
            hashlib.sha256(json.dumps(getattr(b, "_verif_trace", None)).encode()).hexdigest()[:16]]


def solo(k):
    """Reference for the *effect* of the options of instance k: constructed and run alone in a fresh interpreter."""
    D, ov = INST[k]
    b = construct(D, dict(dict(display="off"), **copy.deepcopy(ov), random_seed=SEEDS[k]))
    return _digest(b, b.optimize())


class _Rec(logging.Handler):
    def __init__(self):
        super().__init__(level=0)
        self.levels = []

    def emit(self, r):
        self.levels.append(r.levelno)


def drive(hist):
    """Executed in a fresh interpreter: replay the event history, compare after every event."""
    solo_ref = json.loads(os.environ.get("C20_SOLO", "{}"))
    logging.disable(logging.NOTSET)
    rec = _Rec()
    logging.getLogger("BADS").addHandler(rec)
    logging.getLogger("BADS").propagate = False
    live = {}
    ran = set()
    bad = []
    users = {}
    for ev, k in hist:
        if ev == "new":
            D, ov = INST[k]
            user = dict(dict(display="off"), **copy.deepcopy(ov), random_seed=SEEDS[k])
            users[k] = user
            try:
                live[k] = construct(D, user)
            except Exception as e:  # noqa  (a valid construction failing because of what ran before is a leak)
                bad.append(("construction-failed-after-history/%s" % k, repr(e)[:100]))
                return bad
        elif ev == "run":
            try:
                del rec.levels[:]
                res = live[k].optimize()
                # effect of the instance's own options on its run, whatever was constructed or run in between:
                # same run as alone (random_seed, and every option that shapes the run), and display='off' stays silent
                if k in solo_ref and _digest(live[k], res) != solo_ref[k]:
                    bad.append(("user-options-without-effect-at-run/%s" % k, (_digest(live[k], res), solo_ref[k])))
                if users[k].get("display") == "off" and any(lv < logging.WARNING for lv in rec.levels):
                    bad.append(("user-option-without-effect/display|instance-%s" % k, sorted(set(rec.levels))))
            except Exception as e:  # noqa
                bad.append(("run-failed/%s" % k, repr(e)[:100]))
            ran.add(k)
        elif ev == "poke":
            # in-place edit of mutable option values of one instance must not be visible in the others
            for name, v in list(dict.items(live[k].options)):
                if isinstance(v, list) and name != "useroptions" and name not in users[k]:
                    v.append("POKED")
                elif isinstance(v, np.ndarray) and v.dtype.kind == "f" and name not in users[k]:
                    v += 17.0
                elif isinstance(v, dict) and name not in users[k]:
                    v["POKED"] = 1
        for kk, b in live.items():
            D, _ = INST[kk]
            ref = reference_options(D, users[kk])
            skip = set(NORMALISED) - set(users[kk])
            if kk in ran:
                # (noise_size is only ever derived when the user left it empty: a supplied value must survive the run)
                skip |= OWN_RUN_REWRITES - ({"noise_size"} & set(users[kk]))
            if kk == "A" and ("poke", "A") in hist[: hist.index((ev, k)) + 1]:
                skip |= {n for n, v in ref.items() if isinstance(v, (list, np.ndarray, dict))}
            for key, d in compare_options(b.options, ref, users[kk], skip=skip):
                bad.append(("%s|instance-%s-after-%s-%s" % (key, kk, ev, k), d))
    return bad


_SOLO = {}


def solo_refs():
    if not _SOLO:
        _SOLO.update({k: _fresh(("solo", k)) for k in INST})
    return _SOLO


def _spawn(item):
    hist, refs = item
    env = dict(os.environ)
    env["C20_SOLO"] = json.dumps(refs)
    env["PYTHONPATH"] = "%s:%s" % (REPO, VERIF)
    code = "import json,sys,warnings,logging; warnings.filterwarnings('ignore'); logging.disable(logging.CRITICAL)\n" \
           "from mc.props import c20\nh=[tuple(e) for e in json.loads(sys.argv[1])]\nprint('RESULT'+json.dumps(c20.drive(h), default=repr))"
    p = subprocess.run([sys.executable, "-c", code, json.dumps(hist)], capture_output=True, text=True, env=env, cwd=VERIF, timeout=600)
    for line in p.stdout.splitlines():
        if line.startswith("RESULT"):
            return hist, json.loads(line[6:]), None
    return hist, [], (p.stderr or p.stdout)[-300:]


def _fresh(item):
    """Run c20.<fn>(args) in a fresh interpreter (the interpreter state *is* part of what C20 is about)."""
    fn, args = item
    env = dict(os.environ)
    env["PYTHONPATH"] = "%s:%s" % (REPO, VERIF)
    code = "import json,sys,warnings,logging; warnings.filterwarnings('ignore'); logging.disable(logging.CRITICAL)\n" \
           "from mc.props import c20\na=json.loads(sys.argv[2])\nprint('RESULT'+json.dumps(getattr(c20, sys.argv[1])(c20._detuple(a)), default=repr))"
    p = subprocess.run([sys.executable, "-c", code, fn, json.dumps(args)], capture_output=True, text=True, env=env, cwd=VERIF, timeout=900)
    for line in p.stdout.splitlines():
        if line.startswith("RESULT"):
            return json.loads(line[6:])
    raise HarnessError("fresh-interpreter call %s failed: %s" % (fn, (p.stderr or p.stdout)[-300:]))


def _detuple(a):
    if isinstance(a, list):
        return tuple(_detuple(x) for x in a)
    return a


# ------------------------------------------------------------------ caller-owned objects
class _OutputFcn:
    """An output function given as a callable *object* (its identity and its state belong to the caller)."""

    def __init__(self):
        self.calls = 0

    def __call__(self, x, state):
        self.calls += 1
        return False


def object_options(_):
    """Options whose value is an object: BADS must use exactly the supplied object (identity), and it must take effect."""
    out = []
    n = 0
    for D in (1, 2):
        n += 1
        cb = _OutputFcn()
        b = construct(D, {"display": "off", "output_fcn": cb, "max_fun_evals": 12, "random_seed": 1})
        if b.options["output_fcn"] is not cb:
            out.append(("user-option-object-replaced/output_fcn", "options['output_fcn'] is not the supplied object", [D]))
        b.optimize()
        if cb.calls == 0:
            out.append(("user-option-without-effect/output_fcn", "the supplied output_fcn object was never called", [D]))
    return n, out


def caller_owned(case):
    from pybads import BADS

    geo, spelling, D, run = case
    if geo == "log":
        lb, ub, plb, pub, x0 = [1e-3] * D, [1e3] * D, [1e-2] * D, [1e2] * D, [5.0] * D
    elif geo == "linub":   # start exactly on the upper bound (it is moved inside - in a copy)
        lb, ub, plb, pub, x0 = [-5.0] * D, [5.0] * D, [-2.0] * D, [2.0] * D, [5.0] * D
    else:
        lb, ub, plb, pub, x0 = [-5.0] * D, [5.0] * D, [-2.0] * D, [2.0] * D, [1.0] * D
    conv = {"array2d": lambda v: np.array(v, float).reshape(1, D), "array1d": lambda v: np.array(v, float), "list": lambda v: list(v)}[spelling]
    args = dict(x0=conv(x0), lower_bounds=conv(lb), upper_bounds=conv(ub), plausible_lower_bounds=conv(plb), plausible_upper_bounds=conv(pub))
    opts = {"display": "off", "random_seed": 2, "max_fun_evals": 14, "search_method": [("ES-wcm", 1), ("ES-ell", 1)], "noise_nudge": np.array([1.0, 0.0])}
    b_args, b_opts = copy.deepcopy(args), copy.deepcopy(opts)
    out = []
    bb = BADS(lambda x: float(np.sum(np.log10(np.abs(np.asarray(x)) + 1e-9) ** 2)), options=opts, **args)
    stages = ["construction"]
    if run:
        bb.optimize()
        stages.append("optimize")
    for k in args:
        if not same(args[k], b_args[k]):
            out.append(("caller-array-mutated/%s/%s" % (k, geo), (repr(b_args[k])[:50], repr(args[k])[:50])))
    for k in b_opts:
        if k not in opts or not same(opts[k], b_opts[k]):
            out.append(("caller-options-dict-mutated/%s" % k, ""))
    if set(opts) != set(b_opts):
        out.append(("caller-options-dict-keys-changed", sorted(set(opts) ^ set(b_opts))))
    return 1, [(k, d, list(case)) for k, d in out]


def replay(case, key):
    kind = case["kind"]
    if kind == "single":
        n, out = _fresh(("single_block", case["block"]))
        out = [(o[0].split("|single:")[0],) + tuple(o[1:]) for o in out]
    elif kind == "pair":
        n, out = _fresh(("pair_block", case["block"]))
    elif kind == "allcore":
        n, out = _fresh(("all_core", [2]))
    elif kind == "objopt":
        n, out = _fresh(("object_options", 0))
    elif kind == "seedeffect":
        n, out = _fresh(("seed_effect", 0))
    elif kind == "unknown":
        n, out = _fresh(("unknown_names", 0))
    elif kind == "owned":
        n, out = _fresh(("caller_owned", case["case"]))
    elif kind == "history":
        h, bad, err = _spawn(([tuple(e) for e in case["hist"]], solo_refs()))
        return any(("C20/" + k) == key for k, _ in bad)
    else:
        return False
    return any(("C20/" + o[0]) == key for o in out)


def run(ctx):
    rep = Report(ctx, "model_checking")
    q = ctx.quick
    names = [k for p in ini_paths() for k, _ in read_ini(p)]
    Ds = (1, 2, 3, 7)
    N = 0
    blocks = [(D, names[i:i + 30]) for D in Ds for i in range(0, len(names), 30)]
    for blk, (n, out) in zip(blocks, pmap(_fresh, [("single_block", b) for b in blocks])):
        N += n
        for k, d, c in out:
            rep.violation("option value is not what the statement requires", k.split("|single:")[0], d, dict(kind="single", block=[blk[0], list(blk[1])]))
    pairs = list(itertools.combinations(CORE, 2))
    pblocks = [(D, pairs[i:i + 11]) for D in Ds for i in range(0, len(pairs), 11)]
    for blk, (n, out) in zip(pblocks, pmap(_fresh, [("pair_block", b) for b in pblocks])):
        N += n
        for k, d, c in out:
            rep.violation("option value is not what the statement requires (pair of overrides)", k, d, dict(kind="pair", block=[blk[0], [list(p) for p in blk[1]]]))
    n, out = _fresh(("all_core", [2]))
    N += n
    for k, d, c in out:
        rep.violation("option value is not what the statement requires (all core overrides)", k, d, dict(kind="allcore"))
    n, out = _fresh(("object_options", 0))
    N += n
    for k, d, c in out:
        rep.violation("a supplied option object is not used as given", k, d, dict(kind="objopt"))
    n, out = _fresh(("seed_effect", 0))
    N += n
    for k, d, c in out:
        rep.violation("a supplied option does not take effect", k, d, dict(kind="seedeffect"))
    n, out = _fresh(("unknown_names", 0))
    N += n
    for k, d, c in out:
        rep.violation("unknown option name not rejected with ValueError", k, d, dict(kind="unknown"))
    owned = [(g, sp, D, run_) for g in ("lin", "log", "linub") for sp in ("array2d", "array1d", "list") for D in (1, 2) for run_ in (False, True)]
    for n, out in pmap(_fresh, [("caller_owned", list(o)) for o in owned]):
        N += n
        for k, d, c in out:
            rep.violation("BADS mutated a caller-owned object", k, d, dict(kind="owned", case=c))
    refs = dict(solo_refs())
    hs = histories(4 if q else 6)
    if not q and len(hs) > 1500:
        rep.cap_hit("histories capped at 1500 of %d" % len(hs))
        hs = hs[:1500]
    T = 0
    for h, bad, err in pmap(_spawn, [(h, refs) for h in hs]):
        T += len(h)
        if err is not None:
            raise HarnessError("history driver failed: %s" % err)
        for k, d in bad:
            rep.violation("options of an instance changed because of another instance (or run)", k, d, dict(kind="history", hist=[list(e) for e in h]))
    rep.set("states", N + len(hs))
    rep.set("transitions", N + T)
    rep.set("traces_validated_against_impl", len(hs))
    rep.set("option_names", len(names))
    rep.set("constructions", N)
    rep.set("histories", len(hs))
    rep.sample(dict(history=[list(e) for e in hs[min(40, len(hs) - 1)]], instances={k: dict(D=v[0], overrides=sorted(v[1])) for k, v in INST.items()}))
    rep.assumptions += ["don't-care: the three documented normalisations at construction; an instance's own rewrites during its own optimize() (for that instance only)"]
    if len(names) < 100:
        raise HarnessError("option files not read")
    return rep.finish(replay)
