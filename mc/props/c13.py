"""C13 -- mesh size doubles after a successful poll (up to a cap), shrinks after a failure (M1 + E1)."""
from .loopmodel import make_replay, run_loop

PID = "C13"
replay = make_replay(PID)


def run(ctx):
    return run_loop(ctx, PID)
