"""C17 -- candidate filtering: no duplicates, nothing infeasible or already evaluated.
E3: the real contraints_check on all candidate arrays over small lattices x boxes x tolerances x logs x constraints;
run level: every call of the filter at its three sites + call-log multiplicity in deterministic runs."""
import itertools
import types

import numpy as np

from ..common import Report, pmap
from ..e1 import E1Sink, gate, replay_case, vacuity_floor
from ..explore import explore

PID = "C17"
MON = ["C17r", "C17box"]
_replay_e1 = replay_case(PID)
DELTA = 2.0**-3


def cons_fn(name):
    if name == "none":
        return None
    if name == "half":
        return lambda X: np.atleast_2d(X)[:, 0] > 1.0 * DELTA
    if name == "notpoint":
        return lambda X: np.all(np.atleast_2d(X) == 1.0 * DELTA, axis=1)
    raise ValueError(name)


def filter_cell(args):
    """One block of cells: fixed (D, box, proj, tol, log, cons); all candidate arrays up to `rows` rows."""
    from pybads.function_logger import contraints_check

    D, boxhi, proj, tolk, log, cons, rows = args
    lat1 = [-1.0, 0.0, 1.0, 2.0, 3.0] if D == 1 else [-1.0, 0.0, 1.0, 2.0]
    pts = [np.array(p) * DELTA for p in itertools.product(lat1, repeat=D)]
    lb = np.zeros((1, D))
    ub = np.full((1, D), boxhi * DELTA)
    tol = {"2d": 2 * DELTA, "d": DELTA, "d64": DELTA / 64}[tolk]
    X = np.array(log, float).reshape(-1, D) * DELTA if len(log) else np.empty((0, D))
    fl = types.SimpleNamespace(X=np.vstack([X, np.full((2, D), np.nan)]), X_max_idx=len(X) - 1,
                               variable_transformer=types.SimpleNamespace(inverse_transf=lambda u: u))
    cf = cons_fn(cons)
    bad = {}
    n = 0
    for r in range(1, rows + 1):
        for combo in itertools.product(range(len(pts)), repeat=r):
            U = np.array([pts[i] for i in combo]).reshape(r, D)
            n += 1
            try:
                out = contraints_check(U.copy(), lb, ub, tol, fl, proj, cf)
            except Exception as e:  # noqa
                bad.setdefault("filter/exception/%s" % type(e).__name__, (U.tolist(), repr(e)[:100]))
                continue
            out = np.atleast_2d(out) if np.size(out) else np.empty((0, D))
            if out.size == 0:
                continue
            if np.any(out < lb) or np.any(out > ub):
                bad.setdefault("filter/outside-box", U.tolist())
            if cf is not None and np.any(cf(out)):
                bad.setdefault("filter/infeasible", U.tolist())
            if len(np.unique(out, axis=0)) != len(out):
                bad.setdefault("filter/duplicates", U.tolist())
            if len(X):
                a = np.round(out / (tol / 2))
                b = np.round(X / (tol / 2))
                if any((b == row).all(1).any() for row in a):
                    bad.setdefault("filter/evaluated-not-removed", U.tolist())
    return args, n, bad


def cells(quick):
    out = []
    for D in (1, 2):
        lat1 = [-1.0, 0.0, 1.0, 2.0, 3.0] if D == 1 else [-1.0, 0.0, 1.0, 2.0]
        P_ = list(itertools.product(lat1, repeat=D))
        off = [tuple(0.25 if i == 0 else 0.0 for i in range(D)), tuple(1.0 + 1.0 / 128 for _ in range(D))]  # off-lattice logged points
        logs = [()] + [(p,) for p in P_ + off]
        pairs = list(itertools.combinations(P_[: (5 if D == 1 else 6)], 2))
        logs += [tuple(pr) for pr in (pairs if not quick else pairs[:4])]
        rows = (3 if quick else 4) if D == 1 else (2 if quick else 3)
        for boxhi in (1.0, 2.0):
            for proj in (True, False):
                for tolk in ("2d", "d", "d64"):
                    for log in logs:
                        for cons in ("none", "half", "notpoint"):
                            out.append((D, boxhi, proj, tolk, log, cons, rows))
    return out


def job(D, geo, target, seed, cons=None, opts=None, mode="det"):
    from .. import problems as P_

    if cons == "halfx":
        cons = P_.half_for("in", geo, D)
    elif cons == "half_n":
        cons = P_.half_for("in", geo, D, real="nan")
    o = {"max_fun_evals": 40 + 20 * D}
    if opts:
        o.update(opts)
    return dict(D=D, geo=geo, x0="in", mode=mode, target=target, cons=cons, seed=seed, opts=o, monitors=MON, seams=True, script={})


def replay(case, key):
    if isinstance(case, dict) and case.get("kind") == "cell":
        a = case["args"]
        a[4] = tuple(tuple(p) for p in a[4])
        _, n, bad = filter_cell(tuple(a))
        return any(("C17/" + k + "/E3") == key for k in bad)
    return _replay_e1(case, key)


def run(ctx):
    rep = Report(ctx, "model_checking")
    q = ctx.quick
    seeds = ctx.seeds(1, 2)
    cs = cells(q)
    total = 0
    for args, n, bad in pmap(filter_cell, cs, chunksize=8):
        total += n
        for k, U in bad.items():
            rep.violation("candidate filter handed on a forbidden candidate", k + "/E3", dict(candidates=U, cell=args[:6]), dict(kind="cell", args=list(args)))
    rep.set("filter_cells", total)
    rep.set("filter_cell_blocks", len(cs))
    rep.sample(dict(filter_block=dict(D=2, box=[0, 2 * DELTA], proj=True, tol="delta", logged=[[0.25 * DELTA, 0]], constraint="half", candidate_rows="all arrays with repetition and order up to the row bound")))
    ng = gate([job(2, "lin", "sphere_corner", seeds[0])])
    sink = E1Sink(rep, PID)
    Ds = (1, 2) if q else (1, 2, 3)
    base = [job(D, g, t, s, cons=c) for D in Ds for g in ("lin", "tight", "log", "lin2") for t in ("sphere_corner", "sphere_face", "sphere_in", "plateau")
            for c in (None, "ball", "halfx", "annulus", "half_n") for s in seeds if not (q and c in ("annulus", "half_n") and t in ("sphere_face", "plateau"))]
    base += [job(D, g, "sphere_corner", seeds[0], mode=m, opts={"max_fun_evals": 60, "noise_final_samples": 2}) for D in Ds for g in ("lin",) for m in ("decl", "spec")]
    # off-grid hard bounds with the optimum on/beyond them, mesh re-expansion, poll points forced onto the mesh
    base += [job(D, g, "sphere_out", s, opts=dict(o, max_fun_evals=70), mode=m) for D in (1, 2, 3) for g in ("lin2", "log2") for m in ("det", "decl")
             for o in ({"search_mesh_expand": 1}, {"force_poll_mesh": True}, {"force_poll_mesh": True, "search_mesh_expand": 1}, {})
             for s in (seeds + [seeds[0] + 11, seeds[0] + 12]) if not (q and m == "decl" and D == 3)]
    # long noisy runs with forced poll mesh and search-mesh expansion (refine / re-expand cycles next to an off-grid bound)
    base += [job(D, "lin2", t, s, opts={"force_poll_mesh": True, "search_mesh_expand": 1, "max_fun_evals": 220}, mode="decl")
             for D, t in ((2, "sphere_out"), (3, "sphere_face")) for s in seeds]
    # the near-bound starts and re-expansion stages of C01 (coarse tol_mesh), judged here with the C17 monitors
    from . import c01 as _c01
    for D in (1, 2):
        for g in ("lin2", "log2"):
            for m in ("det", "decl"):
                for o in ({}, {"search_mesh_expand": 1}):
                    for s_ in seeds + [seeds[0] + 11]:
                        j = _c01.job(D, g, "in", m, "sphere_out", None, s_, opts=dict(o, max_fun_evals=70 if m == "det" else 90))
                        j["monitors"] = MON
                        j["seams"] = True
                        base.append(j)
    # starting points whose mesh-snapped image crosses the constraint boundary (the snapped point is what gets evaluated)
    from .c02 import start_cells
    for j in start_cells(seeds[0]):
        j = dict(j, monitors=MON)
        j.pop("expect", None)
        base.append(j)
    st = explore(base, ["ans"], 0, sink, name="runs/b0")
    adv = [job(D, "lin", "adv", seeds[0], opts={"tol_mesh": 2.0**-4}) for D in (1, 2)]
    # success-rich answer policy: the mesh is re-expanded again and again next to off-grid bounds (start on the upper bound)
    for D in (1, 2):
        for g in ("log", "log2", "lin2"):
            j = job(D, g, "adv", seeds[0], opts={"tol_mesh": 2.0**-4, "max_fun_evals": 30 + 15 * D})
            j["base"] = "S4"
            j["x0"] = "ub"
            adv.append(j)
    st = explore(adv, ["ans"], 1, sink, stats=st, name="adv/b1", pos_ok=(lambda k, p, r: p < 12) if q else None)
    sink.finish_cov(st)
    rep.set("states", max(1, total))
    rep.set("transitions", max(1, total + sink.stat_tot.get("cc_bads", 0) + sink.stat_tot.get("cc_es", 0)))
    rep.set("filter_calls_checked_in_runs", sink.stat_tot.get("cc_bads", 0) + sink.stat_tot.get("cc_es", 0))
    rep.set("gate_jobs", ng)
    vacuity_floor(rep, sink, 40)
    return rep.finish(replay)
