"""C12 -- the evaluation log records exactly what was observed, where it was observed.
E2: explicit-state BFS over FunctionLogger operation histories (call/add, record flags, colliding points,
cache sizes forcing growth, noise levels, transforms) against a list-of-records reference model."""
import copy
import math
from fractions import Fraction

import numpy as np

from ..common import HarnessError, Report, pmap

PID = "C12"


class Ref:
    """Boring reference: a list of records, written from the property statement."""

    def __init__(self, level):
        self.level = level
        self.rows = []
        self.func_count = 0

    def clone(self):
        r = Ref(self.level)
        r.rows = copy.deepcopy(self.rows)
        r.func_count = self.func_count
        return r

    def observe(self, p, v, sd, record, is_call):
        if not record:
            idx = [i for i, r in enumerate(self.rows) if r["x"] == p]
            if idx:
                self.rows[idx[-1]]["n"] += 1
        else:
            merged = False
            if sd is not None and (self.level == 2 or not is_call):
                idx = [i for i, r in enumerate(self.rows) if r["x"] == p]
                if idx:
                    r = self.rows[idx[0]]
                    # precision-weighted mean and combined SD in exact rational arithmetic (no under/overflow for extreme SDs)
                    sn2, s12 = Fraction(r["s"]) ** 2, Fraction(sd) ** 2
                    r["y"] = float((Fraction(r["y"]) * s12 + Fraction(v) * sn2) / (sn2 + s12))
                    r["s"] = r["s"] * math.sqrt(float(s12 / (sn2 + s12)))
                    r["n"] += 1
                    r["merged"] = True
                    merged = True
            if not merged:
                self.rows.append({"x": p, "y": v, "y0": v, "s": sd, "n": 1, "merged": False})
        if is_call:
            self.func_count += 1

    def canon(self):
        return repr([(r["x"], float("%.12g" % r["y"]), None if r["s"] is None else float("%.12g" % r["s"]), r["n"]) for r in self.rows]) + "|%d" % self.func_count


def compare(fl, ref, vt):
    n = len(ref.rows)
    out = []
    if fl.Xn != n - 1:
        return ["Xn"]
    if fl.func_count != ref.func_count:
        out.append("func_count")
    for i, r in enumerate(ref.rows):
        if tuple(fl.X[i]) != r["x"]:
            out.append("X-row")
        xo = np.array(r["x"]) if vt is None else vt.inverse_transf(np.array(r["x"]).reshape(1, -1))[0]
        if not np.array_equal(fl.X_orig[i], xo):
            out.append("X_orig-correspondence")
        if not np.isclose(fl.Y[i, 0], r["y"], rtol=1e-12, atol=0):
            out.append("Y-row" + ("-merged" if r["merged"] else ""))
        if not r["merged"] and fl.Y_orig[i, 0] != r["y0"]:
            out.append("Y_orig-row")
        if fl.noise_flag and r["s"] is not None and not np.isclose(fl.S[i, 0], r["s"], rtol=1e-12):
            out.append("S-row")
        if fl.n_evals[i, 0] != r["n"]:
            out.append("n_evals-row")
        if not fl.X_flag[i]:
            out.append("X_flag")
    if np.any(fl.X_flag[n:]) or np.any(~np.isnan(fl.X[n:])) or np.any(~np.isnan(fl.Y[n:])) or np.any(fl.n_evals[n:] != 0) or np.any(~np.isnan(fl.X_orig[n:])):
        out.append("rows-beyond-Xn-touched")
    if fl.noise_flag and np.any(~np.isnan(fl.S[n:])):
        out.append("rows-beyond-Xn-touched")
    if fl.X_max_idx != n - 1:
        out.append("X_max_idx")
    return out


NEAR = 1.0 + 2.0**-20   # a fine-mesh neighbour of 1.0 (distinct point, within 1e-6)


def points(D):
    if D == 1:
        return [(0.0,), (1.0,), (2.0,), (NEAR,)]
    if D == 2:
        return [(0.0, 0.0), (0.0, 1.0), (1.0, 0.0), (1.0, 1.0), (1.0, NEAR)]
    return [(0.0, 0.0, 0.0), (0.0, 0.0, 1.0), (0.0, 1.0, 1.0), (1.0, 1.0, 1.0)]  # sharing 0..3 coordinates


def make_vt(kind, D):
    if kind == "none":
        return None
    from pybads.variable_transformer import VariableTransformer

    if kind == "affine":
        return VariableTransformer(D, np.full((1, D), -10.0), np.full((1, D), 10.0), np.full((1, D), -2.0), np.full((1, D), 2.0))
    return VariableTransformer(D, np.full((1, D), 1e-2), np.full((1, D), 1e3), np.full((1, D), 1.0), np.full((1, D), 100.0))


def run_cfg(cfg):
    from pybads.function_logger import FunctionLogger

    D, level, cache, depth, tk = cfg[:5]
    sdk = cfg[5] if len(cfg) > 5 else "std"
    pts = points(D)
    vals = [1.0, 3.0]
    SD2 = {"std": [1.0, 0.5], "tiny": [1e-160, 3e-161], "huge": [1e200, 2.5e199]}[sdk]  # squares of the extreme ones under/overflow
    sds = SD2 if level == 2 else [None]
    ops = [("call", p, v, s, r) for p in pts for v in vals for s in sds for r in (True, False)]
    if level != 1:
        ops += [("add", p, v, s, None) for p in pts for v in vals for s in (SD2 if level == 2 else [None])]
    holder = {}
    vt = make_vt(tk, D)

    def fun(x):
        holder["arg"] = np.array(x, float).copy()
        if isinstance(x, np.ndarray) and x.flags.writeable:
            x[...] = 7.0e7  # the target scribbles over its argument: the log must not notice
        return (holder["v"], holder["s"]) if level == 2 else holder["v"]

    root = FunctionLogger(fun, D, level > 0, level, cache_size=cache, variable_transformer=vt)
    frontier = [(root, Ref(level), ())]
    seen = set()
    bad = {}
    trans = 0
    maxd = 0
    for d in range(depth):
        nxt = []
        for fl, ref, hist in frontier:
            for op in ops:
                g = copy.deepcopy(fl)
                g.fun = fun
                r = ref.clone()
                holder["v"], holder["s"] = op[2], op[3]
                holder["arg"] = None
                try:
                    if op[0] == "call":
                        ret = g(np.array(op[1]), record_duplicate_data=op[4])
                        r.observe(op[1], op[2], op[3], op[4], True)
                        xo = np.array(op[1]) if vt is None else vt.inverse_transf(np.array(op[1]).reshape(1, -1))[0]
                        if holder["arg"] is None or not np.array_equal(np.ravel(holder["arg"]), xo):
                            bad.setdefault("target-called-at-wrong-point", (hist + (op,),))
                    else:
                        if level > 0:
                            g.add(np.array(op[1]), op[2], op[3])
                        else:
                            g.add(np.array(op[1]), op[2])
                        r.observe(op[1], op[2], op[3] if level > 0 else None, True, False)
                except Exception as e:  # noqa
                    bad.setdefault("exception/%s" % type(e).__name__, (hist + (op,), repr(e)[:80]))
                    continue
                trans += 1
                diffs = compare(g, r, vt)
                if diffs:
                    for k in set(diffs):
                        bad.setdefault(k, (hist + (op,), diffs[:3]))
                    continue
                c = r.canon()
                if c not in seen:
                    seen.add(c)
                    nxt.append((g, r, hist + (op,)))
                    maxd = d + 1
        frontier = nxt
        if not frontier:
            break
    return cfg, len(seen), trans, maxd, bad


def replay(case, key):
    _, ns, nt, md, bad = run_cfg(tuple(case["cfg"]))
    return any(("C12/" + k) == key.rsplit("|", 1)[0] for k in bad)


def run(ctx):
    rep = Report(ctx, "model_checking")
    q = ctx.quick
    cfgs = []
    for D in (1, 2, 3):
        for level in (0, 1, 2):
            for cache in (1, 2, 3):
                for tk in ("none", "affine", "log"):
                    if q:
                        depth = 3 if not (D == 1 and level == 2) else 3
                        if tk == "log" and cache != 1:
                            continue
                        if D == 3 and (cache == 3 or tk == "affine"):
                            continue
                    else:
                        # depth 4 wherever the operation menu is small enough (level 2 doubles it through the SD values);
                        # depth 5 for the smallest menu; everything else depth 3 as in the quick tier but without its omissions
                        depth = 4 if (D <= 2 and level < 2) or (D == 1 and level == 2) else 3
                        if D == 1 and level < 2 and cache == 1 and tk == "none":
                            depth = 5
                        if D == 2 and level == 2 and cache == 1 and tk == "none":
                            depth = 4
                    cfgs.append((D, level, cache, depth, tk))
    # reported SDs whose squares under/overflow (merging must still give the precision-weighted mean)
    cfgs += [(D, 2, cache, 3, tk, sdk) for D in (1, 2) for cache in (1, 3) for tk in ("none", "affine") for sdk in ("tiny", "huge")]
    cfgs.sort(key=lambda c: -(c[3] * 10 + c[1] + c[0]))
    S = T = 0
    md = 0
    for cfg, ns, nt, d, bad in pmap(run_cfg, cfgs):
        S += ns
        T += nt
        md = max(md, d)
        for k, v in bad.items():
            rep.violation("FunctionLogger differs from the reference log after an operation", "%s|level%d" % (k, cfg[1]), dict(cfg=cfg, history=v), dict(kind="bfs", cfg=list(cfg)))
    rep.set("states", max(1, S))
    rep.set("transitions", max(1, T))
    rep.set("traces_validated_against_impl", T)
    rep.set("max_depth", md)
    rep.set("configurations", len(cfgs))
    rep.sample(dict(cfg=dict(D=2, noise_level=2, cache_size=1, transform="affine"), ops="call(p,v,sd,record in {T,F}) / add(p,v,sd) over 4 points sharing 0..2 coordinates, v in {1,3}, sd in {1,0.5} (+ {1e-160,3e-161} and {1e200,2.5e199}); the target overwrites its argument in place", depth=cfgs[0][3]))
    rep.assumptions += ["noise level 1 (declared, unspecified): no pre-evaluated additions in the menu (statement silent)", "Y_orig compared only on unmerged rows"]
    if T < 1000:
        raise HarnessError("vacuous BFS")
    return rep.finish(replay)
