"""C15 -- the GP surrogate is always conditioned on real, nearby observations.
Run level: every (re)fit, posterior update and acquisition call of explored executions (seams);
E3: get_grid_search_neighbors on all small-lattice logs x incumbents x length scales x size options."""
import itertools
import types

import numpy as np

from ..common import HarnessError, Report, pmap
from ..e1 import E1Sink, gate, replay_case, vacuity_floor
from ..explore import explore

PID = "C15"
MON = []
_replay_e1 = replay_case(PID)


def job(D, geo, mode, target, seed, mfe, cons=None, opts=None):
    o = {"max_fun_evals": mfe, "noise_final_samples": 2}
    if opts:
        o.update(opts)
    return dict(D=D, geo=geo, x0="in", mode=mode, target=target, cons=cons, seed=seed, opts=o, monitors=MON, seams=True, script={})


def neigh_block(args):
    """All logs of <= nmax points from the lattice for one (D, len_scale, options) configuration."""
    from pybads.bads.gaussian_process_train import get_grid_search_neighbors

    D, ls_kind, nmin, nmax_opt, buf, radius, noisy, maxpts = args
    lat = [np.array([v]) for v in (-1.0, -0.5, 0.0, 0.5, 1.0)] if D == 1 else [np.array(p) for p in itertools.product((-1.0, 0.0, 1.0), repeat=2)]
    ls = 1.0 if ls_kind == "scalar" else np.array([0.5, 2.0][:D])
    opts = {"gp_radius": radius, "n_train_max": nmax_opt, "n_train_min": nmin, "buffer_ntrain": buf}
    # (the poll scale is a different, clamped rescaling of the length scale: present, and deliberately not proportional to it)
    gp = types.SimpleNamespace(temporary_data={"len_scale": ls, "effective_radius": 1.0, "poll_scale": (np.array([4.0, 0.25][:D]) if ls_kind != "scalar" else 1.0)})
    bad = {}
    n = 0
    for r in range(1, maxpts + 1):
        for combo in itertools.combinations(range(len(lat)), r):
            for perm_shift in (0, 1):
                idx = list(combo[perm_shift:]) + list(combo[:perm_shift])
                X = np.array([lat[i] for i in idx]).reshape(r, D)
                Y = (np.arange(r, dtype=float) * 1.5 + 0.25).reshape(r, 1)
                S = (0.1 + 0.05 * np.arange(r, dtype=float)).reshape(r, 1)
                fl = types.SimpleNamespace(X=np.vstack([X, np.full((1, D), np.nan)]), Y=np.vstack([Y, [[np.nan]]]), S=np.vstack([S, [[np.nan]]]),
                                           X_max_idx=r - 1, noise_flag=noisy)
                for u in lat:
                    n += 1
                    ostate = {"lb": np.full((1, D), -5.0), "ub": np.full((1, D), 5.0), "scale": 1.0, "periodic_vars": np.zeros((1, D), bool)}
                    try:
                        U, Yo, So = get_grid_search_neighbors(fl, u.reshape(1, D), gp, opts, ostate)
                    except Exception as e:  # noqa
                        bad.setdefault("neighbours/exception/%s" % type(e).__name__, (X.tolist(), u.tolist(), repr(e)[:80]))
                        continue
                    k = U.shape[0]
                    d_all = np.sum(((X - u) / ls) ** 2, axis=1)
                    d_sel = np.sum(((U - u) / ls) ** 2, axis=1)
                    # each selected pair is a log row
                    for i in range(k):
                        rows = np.where((X == U[i]).all(1))[0]
                        if len(rows) == 0 or not any(Y[j, 0] == Yo[i, 0] for j in rows):
                            bad.setdefault("neighbours/pair-not-in-log", (X.tolist(), u.tolist()))
                        elif noisy and (So is None or not any(np.isclose(np.ravel(So)[i], S[j, 0] ** 2, rtol=1e-12, atol=0.0) for j in rows)):
                            bad.setdefault("neighbours/noise-not-variance", (X.tolist(), u.tolist()))
                    if np.any(np.diff(d_sel) < -1e-12):
                        bad.setdefault("neighbours/not-ascending", (X.tolist(), u.tolist()))
                    if k < r and k > 0 and d_sel.max() > np.sort(d_all)[k - 1] + 1e-12:
                        bad.setdefault("neighbours/not-nearest", (X.tolist(), u.tolist()))
                    lo, hi = min(r, nmin), max(nmin, nmax_opt)
                    if not (lo <= k <= hi):
                        bad.setdefault("neighbours/size", (X.tolist(), u.tolist(), k, lo, hi))
                    if len(np.unique(U, axis=0)) != k:
                        bad.setdefault("neighbours/row-used-twice", (X.tolist(), u.tolist()))
    return args, n, bad


def add_cells(_):
    """Posterior update (add_and_update_gp) on every small configuration: a log of 3 points under specified noise, every non-empty
    subset of them as the GP's current training set, and a new evaluation at each logged point (a repeat: in the training set or
    not) or at a new point.  Afterwards the GP must hold exactly one pair for that input and it must be the log's own record
    (merged value, logged SD squared); every other pair is unchanged."""
    import gpyreg as gpr
    from pybads.bads.gaussian_process_train import add_and_update_gp
    from pybads.function_logger import FunctionLogger

    bad = {}
    n = 0
    pts = [0.0, 1.0, 2.0]
    for D in (1, 2):
        for sub in itertools.chain.from_iterable(itertools.combinations(range(3), r) for r in (1, 2, 3)):
            for xn in (0.0, 1.0, 2.0, 3.0):
                for sdn in (0.1, 0.5):
                    n += 1
                    hold = {}

                    def f(x):
                        return hold["v"], hold["s"]

                    fl = FunctionLogger(f, D, True, 2)
                    mk = lambda v: np.full(D, v) if D == 1 else np.array([v, 0.5])
                    for i, p_ in enumerate(pts):
                        hold["v"], hold["s"] = 1.0 + i, 0.5
                        fl(mk(p_))
                    gp = gpr.GP(D=D, covariance=gpr.covariance_functions.SquaredExponential(), mean=gpr.mean_functions.ConstantMean(),
                                noise=gpr.noise_functions.GaussianNoise(constant_add=True, user_provided_add=True))
                    idx = list(sub)
                    gp.X = fl.X[idx].copy()
                    gp.y = fl.Y[idx].copy()
                    gp.s2 = fl.S[idx] ** 2
                    gp.set_hyperparameters(np.array([[0.0] * D + [0.0, -3.0, 2.0]]))
                    before = {tuple(r): (float(gp.y[j, 0]), float(gp.s2[j, 0])) for j, r in enumerate(gp.X)}
                    hold["v"], hold["s"] = 7.0, sdn
                    y, sd, _ = fl(mk(xn))
                    try:
                        g = add_and_update_gp(fl, gp, mk(xn), y, sd, {"specify_target_noise": True})
                    except Exception as e:  # noqa
                        bad.setdefault("add/exception/%s" % type(e).__name__, (D, sub, xn, sdn, repr(e)[:60]))
                        continue
                    rows = [j for j in range(g.X.shape[0]) if np.array_equal(g.X[j], mk(xn))]
                    li = [j for j in range(fl.Xn + 1) if np.array_equal(fl.X[j], mk(xn))][0]
                    where = "in-training-set" if tuple(mk(xn)) in before else ("logged-elsewhere" if xn < 3.0 else "new-point")
                    if len(rows) != 1:
                        bad.setdefault("add/pair-count/%s" % where, (D, sub, xn, sdn, len(rows)))
                        continue
                    if float(g.y[rows[0], 0]) != float(fl.Y[li, 0]):
                        bad.setdefault("add/value-not-logged/%s" % where, (D, sub, xn, sdn, float(g.y[rows[0], 0]), float(fl.Y[li, 0])))
                    if not np.isclose(float(np.ravel(g.s2)[rows[0]]), float(fl.S[li, 0]) ** 2, rtol=1e-12, atol=0):
                        bad.setdefault("add/s2-not-logged-sd-squared/%s" % where, (D, sub, xn, sdn, float(np.ravel(g.s2)[rows[0]]), float(fl.S[li, 0]) ** 2))
                    for j, r in enumerate(g.X):
                        if j != rows[0] and before.get(tuple(r)) != (float(g.y[j, 0]), float(np.ravel(g.s2)[j])):
                            bad.setdefault("add/other-pair-changed/%s" % where, (D, sub, xn, sdn))
    return n, bad


def neigh_cfgs(quick):
    out = []
    for D in (1, 2):
        for ls in ("scalar", "vector"):
            if D == 1 and ls == "vector":
                continue
            for (nmin, nmax, buf, rad) in ((1, 3, 100, 3.0), (2, 4, 1, 0.6), (3, 3, 0, 0.3), (1, 6, 2, 1.2), (5, 2, 100, 3.0)):
                for noisy in (False, True):
                    out.append((D, ls, nmin, nmax, buf, rad, noisy, (4 if quick else 5) if D == 2 else 5))
    return out


def replay(case, key):
    if isinstance(case, dict) and case.get("kind") == "addcells":
        _, bad = add_cells(0)
        return any(("C15/" + k) == key for k in bad)
    if isinstance(case, dict) and case.get("kind") == "neigh":
        _, n, bad = neigh_block(tuple(case["args"]))
        return any(("C15/" + k) == key for k in bad)
    return _replay_e1(case, key)


def run(ctx):
    rep = Report(ctx, "model_checking")
    q = ctx.quick
    seeds = ctx.seeds(1, 2)
    cfgs = neigh_cfgs(q)
    total = 0
    for args, n, bad in pmap(neigh_block, cfgs):
        total += n
        for k, d in bad.items():
            rep.violation("nearest-neighbour training-set selection violates the statement", k, d, dict(kind="neigh", args=list(args)))
    rep.set("neighbour_cells", total)
    from ..common import pool
    na, badd = pool().apply(add_cells, (0,))
    for k, d in badd.items():
        rep.violation("posterior update does not leave the GP holding the log's own record of the point", k, d, dict(kind="addcells"))
    rep.set("posterior_update_cells", na)
    total += na
    rep.sample(dict(neighbour_block=dict(D=2, lattice="3x3", logs="all subsets of <= 4 (quick) / 5 points in two orders", incumbents="all lattice points", len_scale="vector (0.5, 2)", n_train_min=2, n_train_max=4, buffer=1, radius=0.6)))
    ng = gate([job(2, "lin", "spec", "sphere_corner", seeds[0], 70)])
    sink = E1Sink(rep, PID)
    Ds = (1, 2) if q else (1, 2, 3)
    base = []
    for D in Ds:
        for g in ("lin", "log"):
            for m in ("det", "auto", "decl", "spec"):
                for t in ("sphere_in", "sphere_corner"):
                    if q and m == "auto" and (g == "log" or t == "sphere_in"):
                        continue
                    base.append(job(D, g, m, t, seeds[0], 45 + 10 * D if m == "det" else 70))
    # long runs: per-coordinate length scales, n_train_max and the radius rule come into play
    base += [job(D, "lin", m, "sphere_in", seeds[0], 150) for D in ((2,) if q else (2, 3)) for m in (("det", "spec") if q else ("det", "decl", "spec"))]
    base += [job(D, "lin", "spec", "sphere_corner", s, 90) for D in (1, 2) for s in seeds]
    # small logger caches: the log outgrows its cache repeatedly while the GP keeps selecting from it
    base += [job(D, "lin", m, "sphere_in", seeds[0], 90, opts={"cache_size": cs}) for D in (1, 2) for m in ("det", "spec") for cs in (8, 30)]
    # an initial design larger than n_train_max (50 + 10 D): the size limit applies to the very first fit as well
    base += [job(1, "lin", m, "sphere_in", seeds[0], 100, opts={"fun_eval_start": 64}) for m in ("det", "spec")]
    st = explore(base, ["ans", "noise"], 0, sink, name="runs/b0")
    nz = [job(D, "lin", m, t, seeds[0], 62) for D in (1, 2) for m, t in (("spec", "sphere_corner"), ("decl", "sphere_in"))]
    st = explore(nz, ["noise"], 1, sink, stats=st, name="spec-corner/noise-b1", pos_ok=lambda k, p, r: p >= 30 and p % (3 if q else 1) == 0)
    # single fit faults on anisotropic problems (a refit that succeeds on retry must still refresh the selection metric)
    ff = [job(2, g, m, "sphere_in", seeds[0], 60 if m == "det" else 75) for g in ("mixed", "lin2") for m in ("det", "decl")]
    st = explore(ff, ["fit"], 1, sink, stats=st, name="fit-fault/b1")
    sink.finish_cov(st)
    tot = sink.stat_tot
    rep.set("gp_local_fits_checked", tot.get("gp_local", 0))
    rep.set("gp_updates_checked", tot.get("gp_add", 0))
    rep.set("gp_initial_fits_checked", tot.get("gp_init", 0))
    rep.set("acquisition_calls_checked", tot.get("acq_bads", 0) + tot.get("acq_es", 0))
    rep.set("states", max(1, total))
    rep.set("transitions", max(1, total + tot.get("gp_local", 0) + tot.get("gp_add", 0)))
    rep.set("gate_jobs", ng)
    vacuity_floor(rep, sink, 30)
    if tot.get("gp_local", 0) < 200 or tot.get("gp_add", 0) < 100:
        raise HarnessError("too few GP events observed: %s" % tot)
    return rep.finish(replay)
