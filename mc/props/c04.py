"""C04 -- deterministic targets: the result is the best evaluated point, reported truthfully.
E1 over adversarial answer scripts (ties, incremental chains, success right before the budget)."""
from ..common import Report
from ..e1 import E1Sink, gate, replay_case, vacuity_floor
from ..explore import explore
from ..optsweep import sweep_jobs

PID = "C04"
MON = ["C04"]
replay = replay_case(PID)


def job(D, geo, cons=None, cp=False, base="F", target="adv", opts=None, seed=1, x0="in"):
    o = {"tol_mesh": 2.0**-4, "complete_poll": cp}
    if opts:
        o.update(opts)
    return dict(D=D, geo=geo, mode="det", cons=cons, target=target, base=base, x0=x0, opts=o, seed=seed, monitors=MON, script={})


def run(ctx):
    rep = Report(ctx, "model_checking")
    q = ctx.quick
    seeds = ctx.seeds(1, 2)
    rep.assumptions += [
        "default incumbent-update policy; advanced switches at defaults (DESIGN section 3)",
        "answers are the four classes F/I/S/E relative to the running best; seeds %s" % seeds,
    ]
    ng = gate([job(1, "lin"), dict(job(2, "log", base="S4"), script={"ans": {"5": "E"}})])
    sink = E1Sink(rep, PID)
    Ds = (1, 2) if q else (1, 2, 3)
    # (a) b=1 (quick) / b=2 (thorough) over whole short runs, base all-F
    base = [job(D, g, cp=cp, seed=s) for D in Ds for g in ("lin", "log", "unb") for cp in (False, True) for s in seeds]
    st = explore(base, ["ans"], 1 if q else 2, sink, cap=None if q else 12000, name="whole-run/base-F")
    # (b) other base policies and the ball constraint, b=0 (quick) / b=1 (thorough)
    base2 = [job(D, g, cons=c, cp=cp, base=b, seed=seeds[0]) for D in Ds for g in ("lin", "log") for c in (None, "ball")
             for cp in (False, True) for b in ("I", "S4", "E3")]
    for j in base2:
        j["opts"]["max_fun_evals"] = 30 + 15 * j["D"]
    st = explore(base2, ["ans"], 0 if q else 1, sink, stats=st, name="policies-I/S4/E3+ball", pos_ok=None if q else (lambda kind, pos, res: pos < 16))
    # (c) b=2 on a 12-call window (quick), b=3 on D=1 (thorough)
    win = [job(1, "lin", seed=seeds[0]), job(1, "unb", cp=True, seed=seeds[0])]
    if q:
        st = explore(win, ["ans"], 2, sink, pos_ok=lambda kind, pos, res: pos < 12, stats=st, name="12-call-window")
    else:
        st = explore(win, ["ans"], 3, sink, pos_ok=lambda kind, pos, res: pos < 14, stats=st, cap=st["executions"] + 8000, name="14-call-window")
    # (d) budget window: a success at the last call before the budget
    bw = []
    for D in (1, 2):
        n0 = {1: 4, 2: 6}[D]
        for mfe in range(n0, n0 + 2 * D + 7):
            for b in ("S4", "F"):
                bw.append(job(D, "lin", base=b, opts={"max_fun_evals": mfe, "tol_mesh": 1e-6}, seed=seeds[0]))
    st = explore(bw, ["ans"], 0 if q else 1, sink, stats=st, name="budget-window")
    # (e) natural landscapes incl. non-smooth, plateau (ties), minimiser on a face / corner
    nat = [job(D, g, target=t, cons=c, opts={"tol_mesh": 2.0**-6, "max_fun_evals": 60 * D}, seed=s)
           for D in Ds for g in ("lin", "log", "tight") for t in ("l1", "plateau", "sphere_face", "sphere_corner", "sphere_tiny", "sphere_big")
           for c in ((None, "ball") if not q else (None,)) for s in seeds]
    st = explore(nat, ["ans"], 0, sink, stats=st, name="natural-landscapes")
    # (f) option settings that keep the default incumbent-update policy (b=0 quick / b=1 thorough)
    variants = [{"noise_size": 1e-3}, {"noise_size": 1.0}, {"tol_fun": 1e-2}, {"accelerate_mesh": False}, {"nonlinear_scaling": False}, {"max_iter": 3},
                {"tol_stall_iters": 2}, {"fun_eval_start": 4}, {"n_search_iter": 1}, {"tol_noise": 0.0}, {"tol_fun": 1e-310},
                {"uncertainty_handling": False}, {"uncertainty_handling": 0}]
    ov = [job(D, g, target=t, opts=dict(v, max_fun_evals=35 + 10 * D), seed=seeds[0], base=b) for D in (1, 2) for g in ("lin", "log") for v in variants
          for t, b in (("adv", "F"), ("adv", "S4"), ("sphere_in", "F"))]
    st = explore(ov, ["ans"], 0 if q else 1, sink, stats=st, name="option-variants", pos_ok=None if q else (lambda kind, pos, res: pos < 10))
    # logger caches smaller than the initial design (the arrays grow while the design is being evaluated), with and without a transform
    cg = [job(D, g, target=t, base=b, opts={"cache_size": cs, "max_fun_evals": 30 + 10 * D}, seed=seeds[0], x0=x0) for D in (1, 2, 3) for g in ("lin", "log", "unb") for cs in (2, 3, 4)
          for t, b in (("adv", "F"), ("sphere_in", "F"), ("sphere_corner", "F")) for x0 in ("in", "lb") if not (g == "unb" and x0 == "lb")]
    st = explore(cg, ["ans"], 0, sink, stats=st, name="small-cache")
    # minimiser exactly at the origin of the internal coordinates (an all-zero vector), reached exactly on coarse search grids
    pc = [job(D, g, target="sphere_pcentre", opts=dict(o, max_fun_evals=40 + 10 * D), seed=s, x0=x0) for D in (1, 2) for g in ("lin", "log", "lin2", "tight")
          for o in ({}, {"search_grid_number": 2}, {"search_grid_number": 3}) for x0 in ("in", "ub") for s in (seeds + [seeds[0] + 3])]
    st = explore(pc, ["ans"], 0, sink, stats=st, name="minimiser-at-internal-origin")
    sw = sweep_jobs(lambda D, m, o: job(D, "lin", target="sphere_in" if D == 2 else "adv", base="S4", opts=dict(o, max_fun_evals=o.get("max_fun_evals", 40 + 10 * D)), seed=seeds[0]), q, modes=("det",))
    st = explore(sw, ["ans"], 0, sink, stats=st, name="option-variants-full")
    # (g) integer-valued landscapes returned as NumPy / Python numeric types other than float (differences must not wrap around)
    ty = [dict(job(D, g, target="sphere_in", opts={"max_fun_evals": 40 + 10 * D}, seed=seeds[0]), val_type=t) for D in (1, 2) for g in ("lin", "log")
          for t in ("uint64", "int64", "int32", "float32", "int", "uint8", "hugeint", "fraction")]
    st = explore(ty, ["ans"], 0, sink, stats=st, name="typed-values")
    sink.finish_cov(st)
    rep.set("gate_jobs", ng)
    vacuity_floor(rep, sink, 200)
    return rep.finish(replay)
