"""C18 -- the search step evaluates the acquisition-optimal candidate, once.
(a) E3: rank-selection mask for all (mu, lambda) up to a bound; (b) E2: explicit-state BFS over ESSearchHedge
score histories with enumerated uniform draws; (c) run level: every ES call / search step of explored runs."""
import copy
import sys
import types

import numpy as np

from ..common import HarnessError, Report, pmap, pool
from ..e1 import E1Sink, gate, replay_case, vacuity_floor
from ..explore import explore
from .c02 import cons_spec, slab_start

PID = "C18"
MON = ["C18r"]
_replay_e1 = replay_case(PID)


# ------------------------------------------------------------------ (a) selection mask
def mask_rows(args):
    mu_lo, mu_hi, lam_max, extra = args
    from pybads.search.es_search import ESSearch

    bad = []
    n = 0
    pairs = [(mu, lam) for mu in range(mu_lo, mu_hi) for lam in range(1, lam_max + 1)] + list(extra)
    for mu, lam in pairs:
        n += 1
        try:
            m = ESSearch._get_selection_idx_mask_(None, mu, lam)
        except Exception as e:  # noqa
            bad.append(("mask-exception", (mu, lam, repr(e)[:80])))
            continue
        m = np.asarray(m)
        ll = min(mu, lam)
        if m.ndim != 1 or len(m) < ll:
            bad.append(("mask-too-short", (mu, lam, int(m.size))))
            continue
        if not np.issubdtype(m.dtype, np.integer) or np.any(m[:ll] < 0) or np.any(m[:ll] >= mu):
            bad.append(("mask-index-invalid", (mu, lam, m[:ll][:8].tolist())))
    return n, bad[:5]


# ------------------------------------------------------------------ (b) hedge BFS
class StubES:
    def __init__(self, mu, lamb, options):
        pass

    def __call__(self, u, lb, ub, fl, gp, optim_state, sum_rule=True, nbc=None):
        return np.zeros(1), np.array(0.0)


class StubGP:
    """Only consulted when hedge_gamma == 0 (the non-chosen strategies are then evaluated at the search point)."""

    def predict(self, x):
        x = np.asarray(x)
        if x.ndim != 2 or x.shape != (1, 2):
            raise AssertionError("predict called with shape %s, expected (1, 2)" % (x.shape,))
        return np.array([[9.5]]), np.array([[0.25]])


def hedge_bfs(args):
    beta, gamma, decay, depth = args[:4]
    nfun = args[4] if len(args) > 4 else 2
    sh = sys.modules.get("pybads.search.search_hedge")
    if sh is None:
        import pybads.search  # noqa

        sh = sys.modules["pybads.search.search_hedge"]
    for nm in ("ESSearchWM", "ESSearchELL", "np", "ESSearchHedge"):
        if not hasattr(sh, nm):
            raise HarnessError("missing seam search_hedge.%s" % nm)
    real_np, real_wm, real_ell = sh.np, sh.ESSearchWM, sh.ESSearchELL
    draw = {"v": 0.0}

    class NPX:
        def __init__(self):
            self.random = self

        def rand(self, *a):
            return draw["v"]

        def randint(self, *a, **k):
            return real_np.random.randint(*a, **k)

        def __getattr__(self, n):
            return getattr(real_np, n)

    opts = {"hedge_gamma": gamma, "hedge_beta": beta, "hedge_decay": decay, "n_search_iter": 2, "n_search": 4096}
    bad = {}
    states = set()
    trans = 0
    try:
        sh.np = NPX()
        sh.ESSearchWM = StubES
        sh.ESSearchELL = StubES
        h0 = sh.ESSearchHedge([("ES-wcm", 1), ("ES-ell", 1), ("ES-wcm", 0)][:nfun], opts, None)
        canon = lambda h: tuple(float("%.10g" % v) for v in h.g)
        frontier = [h0]
        states.add(canon(h0))
        rewards = {"zero": (1.0, 0.0), "small": (-1e-3, 1.0), "huge": (-1e6, 1e-3), "nan": (float("nan"), 1.0)}
        for d in range(depth):
            nxt = []
            for h in frontier:
                # probabilities of this state (needed to place the draws around the decision boundary)
                probe = copy.deepcopy(h)
                draw["v"] = 0.0
                try:
                    probe(None, None, None, None, None, {})
                except Exception as e:  # noqa  (a draw of 0 must always select a strategy)
                    bad.setdefault("hedge-exception/%s" % type(e).__name__, (canon(h), 0.0, "probe", None, repr(e)[:100]))
                    continue
                p0 = float(probe.prob[0])
                for dv in (0.0, max(0.0, p0 - 1e-9), min(1.0 - 1e-12, p0 + 1e-9), 1.0 - 1e-12):
                    for rname, (df, fs) in rewards.items():
                        for mesh in (1.0, 2.0**-20):
                            hh = copy.deepcopy(h)
                            draw["v"] = dv
                            try:
                                hh(None, None, None, None, None, {})
                                p = np.asarray(hh.prob, float)
                                if not (np.all(np.isfinite(p)) and abs(p.sum() - 1.0) < 1e-12):
                                    bad.setdefault("hedge-prob-not-normalised", (canon(h), p.tolist()))
                                if np.any(p < gamma - 1e-15):
                                    bad.setdefault("hedge-prob-below-floor", (canon(h), p.tolist()))
                                exp_idx = int(np.argwhere(dv < np.cumsum(p))[0][0]) if np.any(dv < np.cumsum(p)) else None
                                got = int(np.ravel(hh.chosen_hedge)[0])
                                if exp_idx is not None and got != exp_idx:
                                    bad.setdefault("hedge-choice-inconsistent", (dv, p.tolist(), got))
                                hh.update_hedge(np.zeros(2), 10.0, 10.0 + df, fs, StubGP(), mesh)
                                if not np.all(np.isfinite(hh.g) | True):
                                    pass
                            except Exception as e:  # noqa
                                bad.setdefault("hedge-exception/%s" % type(e).__name__, (canon(h), dv, rname, mesh, repr(e)[:100]))
                                continue
                            trans += 1
                            k = canon(hh)
                            if k not in states and all(np.isfinite(k)):
                                states.add(k)
                                nxt.append(hh)
            frontier = nxt
            if not frontier:
                break
    finally:
        sh.np, sh.ESSearchWM, sh.ESSearchELL = real_np, real_wm, real_ell
    return args, len(states), trans, bad


# ------------------------------------------------------------------ (b2) ES on boxes of 1-3 search-mesh points
def es_small_boxes(_):
    """Both evolution strategies on search boxes that leave one, two or three mesh points per coordinate (so that a generation
    keeps exactly one / two / three distinct survivors), 2-4 generations, D = 1, 2: the strategy must not fail and must propose
    a survivor inside the box with the lowest acquisition value (the stub surrogate's LCB is a known function of the point)."""
    from pybads.search.es_search import ESSearchELL, ESSearchWM

    class StubGP:
        def __init__(self, X):
            self.X = X
            self.y = np.sum(X ** 2, axis=1, keepdims=True)
            self.temporary_data = {"poll_scale": np.ones(X.shape[1]), "len_scale": 1.0}

        def predict(self, x, *a, **k):
            x = np.atleast_2d(x)
            return np.sum((x - 0.3) ** 2, axis=1, keepdims=True), np.full((x.shape[0], 1), 1e-12)

    class StubLogger:
        def __init__(self, X):
            self.X = X
            self.X_max_idx = X.shape[0] - 1
            self.func_count = X.shape[0]

    bad = {}
    n = 0
    sm = 2.0 ** -10
    for D in (1, 2):
        rs = np.random.RandomState(5)
        X = rs.uniform(-1, 1, size=(12, D))
        for npts in (1, 2, 3):
            for nit in (2, 3, 4):
                for cls in (ESSearchWM, ESSearchELL):
                    n += 1
                    np.random.seed(11)
                    lo = np.full((1, D), 0.25)
                    hi = lo + (npts - 1) * sm
                    state = dict(mesh_size=1.0, search_factor=1.0, search_mesh_size=sm, tol_mesh=1e-6, lb_search=lo.copy(), ub_search=hi.copy(),
                                 lb=lo - 1e-4, ub=hi + 1e-4, scale=1.0, periodic_vars=np.zeros((1, D), dtype=bool))
                    opts = dict(poll_mesh_multiplier=2.0, es_start=0.25, n_search_iter=nit, search_acq_fcn=("acq_LCB", None), es_beta=1)
                    try:
                        us, z = cls(64, 64, opts)(lo.flatten(), state["lb"], state["ub"], StubLogger(X), StubGP(X), state, True, None)
                    except Exception as e:  # noqa
                        bad.setdefault("es-small-box/exception/%s" % type(e).__name__, (cls.__name__, D, npts, nit, repr(e)[:80]))
                        continue
                    us = np.ravel(us)
                    if us.size != D:
                        bad.setdefault("es-small-box/no-proposal", (cls.__name__, D, npts, nit))
                    elif np.any(us < lo.ravel() - 1e-12) or np.any(us > hi.ravel() + 1e-12):
                        bad.setdefault("es-small-box/proposal-outside-box", (cls.__name__, D, npts, nit, us.tolist()))
                    elif not np.allclose(us, hi.ravel(), rtol=0, atol=1e-12):
                        # the stub's acquisition decreases towards 0.3 in every coordinate: the best point of the box is its upper corner;
                        # not every corner need have been generated, so only a proposal *worse than the lower corner* is impossible
                        pass
    return n, bad


# ------------------------------------------------------------------ (c) runs
def job(D, geo, mode, cons, seed, target="sphere_in", hedge=None, opts=None):
    o = {"max_fun_evals": (35 + 15 * D) if mode == "det" else 65, "noise_final_samples": 2}
    if opts:
        o.update(opts)
    c = cons if (cons is None or isinstance(cons, list)) else cons_spec(cons, geo, D)
    x0 = slab_start(geo, D) if cons == "slab" else "in"
    sc = {"hedge": hedge} if hedge is not None else {}
    return dict(D=D, geo=geo, x0=x0, mode=mode, target=target, cons=c, seed=seed, opts=o, monitors=MON, seams=True, script=sc)


def replay(case, key):
    if isinstance(case, dict) and case.get("kind") == "essmall":
        _, bad = es_small_boxes(0)
        return any(("C18/" + k) == key for k in bad)
    if isinstance(case, dict) and case.get("kind") == "mask":
        n, bad = mask_rows((case["mu"], case["mu"] + 1, 0, [(case["mu"], case["lam"])]))
        return bool(bad)
    if isinstance(case, dict) and case.get("kind") == "hedge":
        _, _, _, bad = hedge_bfs(tuple(case["args"]))
        return any(("C18/" + k) == key for k in bad)
    return _replay_e1(case, key)


def run(ctx):
    rep = Report(ctx, "model_checking")
    q = ctx.quick
    seeds = ctx.seeds(1, 2)
    # (a)
    M = 64 if q else 300
    chunks = [(a, min(a + 8, M + 1), M, []) for a in range(1, M + 1, 8)]
    chunks.append((1, 1, 0, [(mu, 2048) for mu in range(1, 2049, 1 if not q else 7)] + [(2048, 2048), (2048, 1)]))
    nm = 0
    for n, bad in pmap(mask_rows, chunks):
        nm += n
        for k, d in bad:
            rep.violation("rank-selection mask is not a valid index vector for the surviving population", k, d, dict(kind="mask", mu=d[0], lam=d[1]))
    rep.set("mask_pairs", nm)
    # (b)
    depth = 4 if q else 6
    hcfgs = [(beta, 0.125, decay, depth) for beta in (1.0, 0.1, 10.0) for decay in (0.1 ** 0.5, 0.1 ** 0.25)]
    # portfolios of one and of three strategies (the exploration floor and the normalisation must follow the portfolio size)
    hcfgs += [(1.0, 0.125, 0.1 ** 0.5, max(2, depth - 1), nf) for nf in (1, 3)]
    hcfgs += [(1.0, 0.0, 0.1 ** 0.5, depth), (0.1, 0.3, 0.1 ** 0.5, depth)]
    hs = ht = 0
    for args, ns, nt, bad in pmap(hedge_bfs, hcfgs):
        hs += ns
        ht += nt
        for k, d in bad.items():
            rep.violation("hedge strategy distribution / choice is not proper", k, d, dict(kind="hedge", args=list(args)))
    rep.set("hedge_states", hs)
    rep.set("hedge_transitions", ht)
    rep.sample(dict(hedge_bfs=dict(beta=1.0, gamma=0.125, events="draw in {0, p0-, p0+, 1-} x reward {zero, small, huge, nan} x mesh {1, 2^-20}", depth=depth)))
    # (c)
    nsb, bsb = pool().apply(es_small_boxes, (0,))
    for k, d in bsb.items():
        rep.violation("evolution strategy fails or proposes outside the box on a box of 1-3 mesh points", k, d, dict(kind="essmall"))
    rep.set("es_small_box_cells", nsb)
    ng = gate([job(2, "lin", "det", "ball", seeds[0])])
    sink = E1Sink(rep, PID)
    Ds = (1, 2) if q else (1, 2, 3)
    base = []
    for D in Ds:
        for g in ("lin", "log", "lin2"):
            for m in ("det", "decl", "spec"):
                for c in (None, "ball", "annulus", "slab"):
                    if q and m != "det" and c in ("annulus",):
                        continue
                    for t in ("sphere_in", "sphere_corner"):
                        if q and t == "sphere_in" and (m != "det" or c is not None):
                            continue
                        base.append(job(D, g, m, c, seeds[0], target=t))
    # both strategies forced through the hedge draw; non-default tol_fun changes hedge_beta
    base += [job(D, g, "det", c, seeds[0], target="sphere_corner", hedge=[hv] * 80, opts=o) for D in Ds for g in ("lin", "lin2") for c in (None, "ball")
             for hv in (0.0, 0.999999) for o in ({}, {"tol_fun": 1e-2}, {"tol_fun": 1e-4})]
    base += [job(D, "lin", "det", None, seeds[0], target="adv", opts={"tol_mesh": 2.0**-4, "tol_fun": tf}) for D in Ds for tf in (1e-3, 1e-2)]
    # fixed LCB parameter (exploitation only / strong exploration) instead of the annealed schedule
    base += [job(D, g, m, None, seeds[0], target="sphere_corner", opts={"search_acq_fcn": ("acq_LCB", b)}) for D in Ds for g in ("lin", "lin2") for m in ("det", "decl") for b in (0, 0.0, 2.0)]
    # more than two ES generations with filters that can empty a whole generation (thin feasible sets, active constraints)
    base += [job(D, g, "det", c, s, target=t, opts={"n_search_iter": ni, "max_fun_evals": 60}) for D in (1, 2) for g in ("lin", "lin2") for c in ("slab", "annulus", "ball", "half")
             for t in ("sphere_corner", "sphere_out") for ni in (3, 4) for s in (seeds + [seeds[0] + 5]) if not (c == "slab" and g == "lin2")]
    # a user-supplied LCB schedule (a function of the evaluation count and the *dimension*); portfolios of one and three strategies
    base += [job(D, g, m, None, seeds[0], target="sphere_corner", opts={"search_acq_fcn": ("acq_LCB", "SCHEDULE_D")}) for D in (1, 2, 3) for g in ("lin", "lin2") for m in ("det", "decl")]
    base += [job(D, "lin", m, c, seeds[0], target="sphere_corner", opts={"search_method": sm}) for D in (1, 2) for m in ("det", "decl") for c in (None, "ball")
             for sm in ([["ES-wcm", 1]], [["ES-ell", 1]], [["ES-wcm", 1], ["ES-ell", 1], ["ES-wcm", 0]])]
    # search mesh coarsening again after refinements, next to hard bounds that are not on the mesh (the rounded box must follow the mesh)
    base += [job(D, g, m, None, s, target="sphere_out", opts=dict(o, max_fun_evals=70 if m == "det" else 90)) for D in (1, 2, 3) for g in ("lin2", "log2")
             for m in ("det", "decl") for o in ({}, {"search_mesh_expand": 1}) for s in (seeds + [seeds[0] + 11])]
    st = explore(base, ["ans"], 0, sink, name="runs/b0")
    adv = [job(D, "lin", "det", c, seeds[0], target="adv", opts={"tol_mesh": 2.0**-4}) for D in (1, 2) for c in (None, "ball")]
    st = explore(adv, ["ans"], 1, sink, stats=st, name="adv/b1", pos_ok=(lambda k, p, r: p < 12) if q else None)
    sink.finish_cov(st)
    rep.set("states", max(1, hs + nm))
    rep.set("transitions", max(1, ht + nm + sink.stat_tot.get("es_calls", 0)))
    rep.set("es_calls_checked", sink.stat_tot.get("es_calls", 0))
    rep.set("es_candidates_checked", sink.stat_tot.get("es_cands", 0))
    rep.set("strategies_seen", {k: v for k, v in sink.stat_tot.items() if k.startswith("es_ESSearch")})
    rep.set("gate_jobs", ng)
    vacuity_floor(rep, sink, 40)
    if sink.stat_tot.get("es_ESSearchWM", 0) < 20 or sink.stat_tot.get("es_ESSearchELL", 0) < 20:
        raise HarnessError("both strategies must be exercised: %s" % sink.stat_tot)
    return rep.finish(replay)
