"""C06 -- BADS actually minimises smooth unimodal targets within the default budget.
The statement is a population guarantee over a random family; a bounded exhaustive check cannot decide a
distributional claim.  What is decided here is the same claim on a completely enumerated finite sub-family
(a lattice of rotated quadratics satisfying the panel requirements), with the statement's own thresholds
evaluated over the whole lattice; the per-run never-worse-than-start clause is checked on every run."""
import numpy as np

from ..common import HarnessError, Report, pmap

PID = "C06"


def rot(D, ang):
    R = np.eye(D)
    for i in range(D - 1):
        G = np.eye(D)
        c, s = np.cos(ang * (i + 1)), np.sin(ang * (i + 1))
        G[i, i] = c
        G[i + 1, i + 1] = c
        G[i, i + 1] = -s
        G[i + 1, i] = s
        R = R @ G
    return R


def job(a):
    D, cond, ang, mi, xi, seed = a[:6]
    box = a[6] if len(a) > 6 else 5.0   # half-width of the plausible box (hard box = 4x)
    off = a[7] if len(a) > 7 else 0.0   # offset of the whole problem (box centre): all-positive parameter boxes
    from pybads import BADS

    R = rot(D, ang)
    ev = np.geomspace(1, cond, D) if D > 1 else np.array([float(cond)])
    A = R @ np.diag(ev) @ R.T
    mpat = [(-4, 0, 3), (0, 0, 0), (3, -3, 1.5)][mi]
    m = np.array([mpat[i % 3] for i in range(D)], float)
    if xi == 5:      # near start on the other side
        d = -np.ones(D) / np.sqrt(D)
        x0 = (m + d * np.sqrt(0.1 / float(d @ A @ d))).reshape(1, D)
    elif xi == 3:      # warm start exactly at the minimiser
        x0 = m.reshape(1, D).copy()
    elif xi == 4:    # start close to the minimiser: f(x0) - f* = 0.05
        d = np.ones(D) / np.sqrt(D)
        x0 = (m + d * np.sqrt(0.1 / float(d @ A @ d))).reshape(1, D)
    else:
        x0 = np.full((1, D), [-2.5, 0.0, 4.5][xi])
    st = dict(best=np.inf, hit=None, n=0, first=None)

    m = m + off
    x0 = x0 + off

    def f(x):
        st["n"] += 1
        d = np.asarray(x, float).ravel() - m
        v = float(0.5 * d @ A @ d)
        if st["first"] is None:
            st["first"] = v
        st["best"] = min(st["best"], v)
        if st["hit"] is None and st["best"] < 1e-2:
            st["hit"] = st["n"]
        return v

    try:
        b = BADS(f, x0=x0, lower_bounds=np.full(D, off - 4.0 * box), upper_bounds=np.full(D, off + 4.0 * box), plausible_lower_bounds=np.full(D, off - box),
                 plausible_upper_bounds=np.full(D, off + box), options={"display": "off", "random_seed": seed})
        r = b.optimize()
    except Exception as e:  # noqa
        from ..common import exc_signature
        return dict(a=list(a), error=repr(e)[:120], sig=exc_signature(e))
    d = np.ravel(r["x"]) - m
    return dict(a=list(a), gap=float(0.5 * d @ A @ d), hit=st["hit"], n=int(r["func_count"]), first=st["first"], fval=float(r["fval"]))


def panel(quick, seed):
    Ds = (1, 2, 3) if quick else (1, 2, 3, 4, 5)
    base = [(D, c, ang, mi, xi, seed, 5.0, 0.0, "base") for D in Ds for c in (1, 10, 100) for ang in (0.0, 0.7) for mi in (0, 2) for xi in (0, 2)]
    # warm starts at the minimiser (per-run clause; they join the base sub-panel)
    warm = [(D, c, 0.7, mi, 3, seed, 5.0, 0.0, "base") for D in Ds for c in (1, 100) for mi in (0, 2)]
    # sub-panel "wide": near-minimum starts (f(x0)-f* = 0.05, two sides) in a wide plausible box (coarse first meshes cannot improve)
    wide = [(D, c, ang, mi, xi, seed, 50.0, 0.0, "wide") for D in (3, 4, 5) for c in (1, 10, 100) for ang in (0.0, 0.7) for mi in (0, 2) for xi in (4, 5)]
    # sub-panel "offset": all-positive parameter boxes, hard [5, 45], plausible [20, 30] (not log-scaled: pub/plb < 10)
    offs = [(D, c, ang, mi, xi, seed, 5.0, 25.0, "offset") for D in (2, 3, 4) for c in (1, 10, 100) for ang in (0.0, 0.7) for mi in (0, 2) for xi in (0, 2)]
    return base + warm + wide + offs


def replay(case, key):
    if case.get("kind") == "run":
        r = job(tuple(case["a"]))
        if "/run-error/" in key:
            return "error" in r and key.endswith("/run-error/%s" % r.get("sig", "?"))
        return ("error" not in r) and (r["gap"] > r["first"] or r["fval"] > r["first"])
    res = pmap(job, [tuple(a) for a in case["panel"]])
    return bool(judge(res)[0])


def judge(res):
    """The statement's thresholds, evaluated separately on every enumerated sub-panel (each a complete lattice of
    >= 60 problems of a sub-family that satisfies the statement's conditions)."""
    bad = []
    stats = {}
    for sub in sorted({r["a"][8] for r in res}):
        rs = [r for r in res if r["a"][8] == sub]
        ok = [r for r in rs if "error" not in r]
        frac = sum(r["gap"] < 1e-3 for r in ok) / max(1, len(rs))
        med = {}
        if frac < 0.9:
            bad.append(("panel-success-rate/%s" % sub, "only %.1f%% of the %s sub-panel (%d problems) within 1e-3 of the minimum" % (100 * frac, sub, len(rs))))
        for D in sorted({r["a"][0] for r in rs}):
            hits = [(r["hit"] if r.get("hit") else 10**9) for r in rs if r["a"][0] == D]
            med[D] = float(np.median(hits))
            if med[D] > 40 * D:
                bad.append(("panel-evaluations-to-1e-2/%s/D%d" % (sub, D), "median %s > %d" % (med[D], 40 * D)))
        stats[sub] = dict(n=len(rs), fraction_within_1e_3=frac, median_evaluations_to_1e_2={str(k): v for k, v in med.items()})
    return bad, stats


def run(ctx):
    rep = Report(ctx, "exploration")
    q = ctx.quick
    seed = ctx.seeds(1, 1)[0]
    jobs = panel(q, seed)
    res = pmap(job, jobs)
    for r in res:
        if "error" in r:
            # keyed by exception type and innermost pybads frame, so that a listed finding is one call site, not "any failure"
            rep.violation("default run on a smooth convex target failed", "run-error/%s" % r.get("sig", "?"), r["error"], dict(kind="run", a=r["a"]))
        elif r["gap"] > r["first"] or r["fval"] > r["first"]:
            rep.violation("returned point is worse than the (snapped) starting point", "worse-than-start", r, dict(kind="run", a=r["a"]))
    bad, stats = judge(res)
    for k, d in bad:
        rep.violation("population guarantee fails on the enumerated lattice panel", k, d, dict(kind="panel", panel=[list(a) for a in jobs]))
    ok = [r for r in res if "error" not in r]
    rep.set("evaluations", len(res))
    rep.set("distinct_nontrivial", len({tuple(r["a"][:5]) + tuple(r["a"][6:]) for r in ok if r["n"] > 10 * r["a"][0]}))
    rep.set("rule", "complete lattice D x eigenvalue profile {1, 1..10, 1..100} x rotation {identity, Givens 0.7*i rad} x minimiser pattern x start, default options, "
                    "one seed from VERIF_SEED; non-trivial = the run used more than 10*D evaluations; distinct = distinct lattice points")
    rep.set("panel_size", len(res))
    rep.set("sub_panels", stats)
    rep.set("worst_gap", max([r["gap"] for r in ok] or [None]))
    rep.set("exhaustive", True)
    rep.sample(res[0])
    rep.sample(res[-1])
    rep.assumptions += ["decided on a finite lattice sub-family only (DESIGN 4.6); no claim about the random family outside it", "seed %d" % seed]
    if any(v["n"] < 60 for v in stats.values()):
        raise HarnessError("a sub-panel is smaller than the statement's 60 problems: %s" % {k: v["n"] for k, v in stats.items()})
    return rep.finish(replay)
