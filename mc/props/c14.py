"""C14 -- each poll explores a positive spanning set of mesh directions at the incumbent.
E3-random: poll_mads_2n under an enumerating random source (all outcomes, D<=3, ratios 1,2,4) with exact
integer determinant; run level: every poll step of explored executions (incumbent + mesh*direction)."""
import sys
from fractions import Fraction

import numpy as np

from ..common import HarnessError, Report, pmap
from ..e1 import E1Sink, gate, replay_case, vacuity_floor
from ..enumrand import EnumRandom, all_outcomes
from ..explore import explore

PID = "C14"
MON = ["C14"]
_replay_e1 = replay_case(PID)


def exact_det(M):
    n = len(M)
    A = [[Fraction(int(v)) for v in row] for row in M]
    det = Fraction(1)
    for i in range(n):
        p = next((r for r in range(i, n) if A[r][i] != 0), None)
        if p is None:
            return Fraction(0)
        if p != i:
            A[i], A[p] = A[p], A[i]
            det = -det
        det *= A[i][i]
        for r in range(i + 1, n):
            f = A[r][i] / A[i][i]
            for c in range(i, n):
                A[r][c] -= f * A[i][c]
    return det


def judge_B(B, D, nmax, scale):
    bad = []
    B = np.asarray(B, float)
    if B.shape != (2 * D, D):
        return ["shape"]
    if not np.array_equal(B[D:], -B[:D]):
        bad.append("not-pm-pairs")
    M = B[:D] * scale
    Mi = np.round(M)
    if not np.allclose(M, Mi, rtol=0, atol=1e-9):
        bad.append("not-integer")
        return bad
    if np.max(np.abs(Mi)) > nmax:
        bad.append("entry-bound")
    if exact_det(Mi.astype(int).tolist()) == 0:
        bad.append("singular")
    if nmax == 1:
        ok = np.all(np.sum(np.abs(Mi), axis=0) == 1) and np.all(np.sum(np.abs(Mi), axis=1) == 1) and set(np.unique(np.abs(Mi))) <= {0.0, 1.0}
        if not ok:
            bad.append("not-signed-permutation")
    return bad


def enum_cfg(cfg):
    """All outcomes of the generator's random draws for one (D, ratio, scale) configuration."""
    D, ratio, scale_kind, upper = cfg
    mod = sys.modules.get("pybads.poll.poll_mads_2n")
    if mod is None:
        import pybads.poll  # noqa

        mod = sys.modules["pybads.poll.poll_mads_2n"]
    if not hasattr(mod, "rnd") or not hasattr(mod, "poll_mads_2n"):
        raise HarnessError("missing seam pybads.poll.poll_mads_2n.rnd")
    # 'neg': the poll scale BADS stores for a variable without finite bounds is negative (-2); it must cancel out all the same
    scale = np.ones(D) if scale_kind == "ones" else (np.array([-2.0, 1.0, -2.0, 0.5][:D]) if scale_kind == "neg" else np.array([0.5, 2.0, 1.0, 4.0][:D]))
    mesh = 2.0**-3
    smesh = mesh * ratio if ratio > 0 else mesh * 2.0**-10
    nmax = max(1, int(np.round(smesh / mesh)))
    full = lambda idx: idx[0] > idx[1]  # strictly lower triangle: the entries the statement talks about
    extreme = (lambda idx: idx[0] < idx[1]) if upper == "extremes" else None
    if upper == "full":
        full = lambda idx: idx[0] != idx[1]
    real = mod.rnd
    n = 0
    bad_found = {}
    kinds = set()
    try:
        def one(ch):
            mod.rnd = EnumRandom(ch, full_mask=full, extreme_mask=extreme)
            return mod.poll_mads_2n(D, scale, smesh, mesh)

        for choices, B in all_outcomes(one):
            n += 1
            for b in judge_B(B, D, nmax, scale):
                bad_found.setdefault(b, (list(choices), np.asarray(B).tolist()))
            kinds.add(tuple(np.sign(np.round(np.asarray(B)[:D] * scale)).astype(int).ravel().tolist()))
    finally:
        mod.rnd = real
    return cfg, n, bad_found, len(kinds)


def job(D, geo, mode, target, seed, cons=None, opts=None):
    o = {"max_fun_evals": (40 + 20 * D) if mode == "det" else 70, "noise_final_samples": 2}
    if opts:
        o.update(opts)
    return dict(D=D, geo=geo, x0="in", mode=mode, target=target, cons=cons, seed=seed, opts=o, monitors=MON, script={})


def replay(case, key):
    if isinstance(case, dict) and case.get("kind") == "enum":
        _, n, bad, _ = enum_cfg(tuple(case["cfg"]))
        return any(("C14/generator/" + b) == key for b in bad)
    return _replay_e1(case, key)


def run(ctx):
    rep = Report(ctx, "model_checking")
    q = ctx.quick
    seeds = ctx.seeds(1, 2)
    # ---- E3-random
    cfgs = []
    for D in (1, 2, 3):
        for ratio in (0, 1, 2, 4, 1.41, 2.83, 1.5):
            for sk in ("ones", "mixed"):
                if ratio not in (0, 1, 2, 4):
                    upper = "extremes" if D == 3 else "full"
                    if sk == "mixed" and q:
                        continue
                elif D == 3 and ratio == 4:
                    upper = "none" if q else "extremes"
                elif D == 3 and ratio == 2:
                    upper = "extremes" if q else "full"
                else:
                    upper = "full"
                if q and sk == "mixed" and D == 3 and ratio == 4:
                    continue
                cfgs.append((D, ratio, sk, upper))
            if ratio in (1, 2):
                cfgs.append((D, ratio, "neg", "extremes" if D == 3 else "full"))
    total = 0
    patterns = 0
    for cfg, n, bad, kinds in pmap(enum_cfg, cfgs):
        total += n
        patterns += kinds
        for b, (choices, B) in bad.items():
            rep.violation("direction generator output violates the positive-spanning-set structure", "generator/%s" % b,
                          dict(cfg=cfg, choices=choices, B=B), dict(kind="enum", cfg=list(cfg)))
        rep.sample(dict(generator_cfg=dict(D=cfg[0], ratio=cfg[1], scale=cfg[2], upper_triangle_draws=cfg[3]), outcomes=n))
    rep.set("generator_outcomes_enumerated", total)
    rep.set("generator_configs", len(cfgs))
    rep.assumptions += ["generator: D<=3, mesh ratios {<<1, 1, 2, 4}; draws above the diagonal (discarded by the generator) are enumerated fully, "
                        "over their two extreme values, or fixed, as stated per sample; diagonal draws of the integer matrix are fixed (overwritten by the sign draws)"]
    # ---- run level
    ng = gate([job(2, "lin", "det", "sphere_corner", seeds[0])])
    sink = E1Sink(rep, PID)
    Ds = (1, 2, 3)
    base = [job(D, g, m, t, s, cons=c) for D in Ds for g in ("lin", "tight", "lin2", "log2", "unb") for m in ("det", "decl")
            for t in ("sphere_corner", "sphere_in") for c in (None, "ball") for s in seeds
            if not (q and m == "decl" and (D == 3 or c == "ball" or g in ("unb", "log2")))]
    base += [job(D, "lin", "det", "adv", seeds[0], opts={"complete_poll": cp, "tol_mesh": 2.0**-4}) for D in Ds for cp in (False, True)]
    # mesh ratios > 1 in full runs need a non-default search grid
    base += [job(D, g, "det", "sphere_corner", seeds[0], opts={"search_size_locked": False, "search_grid_multiplier": 1, "search_grid_number": -1 * r})
             for D in (2, 3) for g in ("lin", "lin2") for r in (1, 2)]
    # search-triggered mesh expansion between polls (the mesh exponent changes outside a poll step under this documented option)
    base += [job(D, g, "det", t, s, opts={"search_mesh_expand": 1, "max_fun_evals": 80}) for D in (1, 2, 3) for g in ("lin", "lin2") for t in ("sphere_in", "sphere_corner") for s in seeds]
    base += [dict(job(D, "lin", "det", "adv", seeds[0], opts={"search_mesh_expand": 1, "tol_mesh": 2.0**-4, "max_fun_evals": 50}), base=b) for D in (1, 2) for b in ("S4", "I")]
    # non-integer mesh ratios
    base += [job(D, "lin", "det", "sphere_corner", seeds[0], opts={"search_grid_multiplier": 0.5, "search_grid_number": 0, "search_size_locked": False}) for D in (2, 3)]
    # poll-related options
    base += [job(D, g, "det", "sphere_corner", seeds[0], opts=o) for D in (1, 2, 3) for g in ("lin", "lin2") for o in
             ({"force_poll_mesh": True}, {"force_poll_mesh": True, "search_grid_number": 3}, {"complete_poll": True}, {"gp_rescale_poll": 0.5}, {"search_grid_number": 4}, {"poll_training": False})]
    st = explore(base, ["ans"], 0, sink, name="runs/b0")
    # noisy runs with noise deviations: LOW outliers make the re-estimation move the incumbent back to an earlier iterate
    nz = [job(D, "lin", m, "sphere_in", s, opts={"max_fun_evals": 75}) for D in (1, 2) for m in ("decl", "spec") for s in seeds]
    st = explore(nz, ["noise"], 1, sink, stats=st, name="noisy/noise-b1", pos_ok=lambda k, p, r: (p >= 30 and p % (3 if q else 1) == 0))
    adv = [job(D, "lin", "det", "adv", seeds[0], opts={"tol_mesh": 2.0**-4}) for D in (1, 2)]
    st = explore(adv, ["ans"], 1, sink, stats=st, name="adv/b1", pos_ok=(lambda k, p, r: p < 14) if q else None)
    sink.finish_cov(st)
    rep.set("states", max(1, total))
    rep.set("transitions", max(1, total + sink.stat_tot.get("polls_checked", 0)))
    rep.set("poll_steps_checked", sink.stat_tot.get("polls_checked", 0))
    rep.set("gate_jobs", ng)
    vacuity_floor(rep, sink, 40)
    if sink.stat_tot.get("polls_checked", 0) < 100:
        raise HarnessError("too few poll steps observed")
    return rep.finish(replay)
