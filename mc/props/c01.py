"""C01 -- hard box bounds are never left.  E1 over geometry x start x mode x landscape x constraint with
answer scripts, plus E3: the complete table of the search-bound rounding."""
import types

import numpy as np

from ..common import Report, pmap
from ..e1 import E1Sink, gate, replay_case, vacuity_floor
from ..explore import explore
from ..optsweep import sweep_jobs
from .. import problems as P

PID = "C01"
MON = ["C01"]
_replay_e1 = replay_case(PID)


def job(D, geo, x0, mode, target, cons, seed, base="F", opts=None):
    o = {"tol_mesh": 2.0**-4, "max_fun_evals": (30 + 15 * D) if mode == "det" else 55}
    if mode != "det":
        o["noise_final_samples"] = 2
    if opts:
        o.update(opts)
    if cons == "half":
        cons = P.half_for(x0, geo, D)
    return dict(D=D, geo=geo, x0=x0, mode=mode, target=target, cons=cons, base=base, seed=seed, opts=o, monitors=MON, script={})


_STUB = []


def _stub_bads():
    """A real BADS instance whose bound state the table overwrites (the method is then called as in the main loop)."""
    if not _STUB:
        import pybads.bads.bads as bb

        _STUB.append(bb.BADS(lambda x: 0.0, x0=np.zeros((1, 1)), lower_bounds=np.full((1, 1), -5.0), upper_bounds=np.full((1, 1), 5.0),
                             plausible_lower_bounds=np.full((1, 1), -2.0), plausible_upper_bounds=np.full((1, 1), 2.0), options={"display": "off"}))
    return _STUB[0]


def search_bounds_cell(cell):
    """E3 cell: (exponent e, lb, ub) -> list of violated clauses, judged on the real _update_search_bounds_."""
    import pybads.bads.bads as bb

    e, lb, ub = cell
    mesh = 2.0**e
    stub = _stub_bads()
    stub.optim_state["lb"] = np.array([lb], float).reshape(1, -1)
    stub.optim_state["ub"] = np.array([ub], float).reshape(1, -1)
    stub.optim_state["search_mesh_size"] = mesh
    stub.search_mesh_size = mesh
    lbs, ubs = stub._update_search_bounds_()
    lbs, ubs = np.ravel(lbs), np.ravel(ubs)
    bad = []
    L, U = np.array([lb], float).ravel(), np.array([ub], float).ravel()
    if np.any(lbs < L):
        bad.append("lb_search-below-lb")
    if np.any(ubs > U):
        bad.append("ub_search-above-ub")
    for v in list(lbs) + list(ubs):
        if np.isfinite(v) and abs(v / mesh - round(v / mesh)) > 1e-9:
            bad.append("not-on-mesh")
    if np.any(np.isfinite(L) & (lbs - L >= mesh)) or np.any(np.isfinite(U) & (U - ubs >= mesh)):
        bad.append("more-than-one-step-inside")
    return cell, bad


def replay(case, key):
    if isinstance(case, dict) and case.get("kind") == "search-bounds":
        _, bad = search_bounds_cell(tuple(case["cell"]))
        return bool(bad)
    return _replay_e1(case, key)


def run(ctx):
    rep = Report(ctx, "model_checking")
    q = ctx.quick
    seeds = ctx.seeds(1, 2)
    rep.assumptions += ["D<=2 (quick) / D<=3 (thorough); seeds %s; answer/noise classes of DESIGN section 3" % seeds]
    ng = gate([job(2, "mixed", "lb", "det", "sphere_out", "half", seeds[0]), job(1, "log", "ub", "decl", "sphere_corner", None, seeds[0])])
    sink = E1Sink(rep, PID)
    Ds = (1, 2) if q else (1, 2, 3)
    geos = ("lin", "tight", "log", "mixed", "unb", "log2", "lin2", "mixunb", "log3")
    # (a) complete product, b=0
    base = []
    for D in Ds:
        for g in geos:
            if g in ("mixed", "mixunb") and D == 1:
                continue
            for x0 in ("in", "lb", "ub", "absent"):
                for mode in ("det", "auto", "decl"):
                    for tgt in (("adv", "sphere_in", "sphere_corner", "sphere_out", "sphere_below") if mode == "det" else ("sphere_corner", "sphere_out")):
                        for cons in (None, "half"):
                            if q and mode != "det" and (x0 in ("absent",) or cons == "half") and g in ("tight", "unb"):
                                continue
                            for s in seeds:
                                base.append(job(D, g, x0, mode, tgt, cons, s))
    st = explore(base, ["ans", "noise"], 0, sink, name="matrix/b0")
    # (b) adversarial scripts with <= b deviations, deterministic, success-rich base grows the mesh to its cap
    adv = [job(D, g, x0, "det", "adv", c, seeds[0], base=b) for D in Ds for g in ("lin", "log", "tight", "log2") for x0 in ("in", "ub")
           for c in (None, "half") for b in ("F", "S4")]
    st = explore(adv, ["ans"], 1 if q else 2, sink, stats=st, name="adv/b", pos_ok=(lambda k, p, r: p < 14) if q else None,
                 cap=None if q else st["executions"] + 10000)
    # (c) noisy, noise deviations
    nz = [job(D, g, "ub", m, "sphere_out", None, seeds[0]) for D in Ds[:2] for g in ("lin", "log") for m in ("decl",)]
    st = explore(nz, ["noise"], 1, sink, stats=st, name="noisy/b1", pos_ok=lambda k, p, r: p % (6 if q else 2) == 0)
    # (d) long runs pressing against the faces
    lg = [job(D, g, "in", "det", t, None, s, opts={"tol_mesh": 1e-6, "max_fun_evals": 150}) for D in Ds for g in ("lin", "log", "mixed", "log2", "lin2", "log3") for t in ("sphere_out", "sphere_below") if not (g == "mixed" and D == 1) for s in seeds]
    # ... and the same with x0 given in single precision (the bounds 0.3-ish of lin2 are not representable in float32)
    lg += [dict(job(D, g, "in", "det", t, None, seeds[0], opts={"tol_mesh": 1e-8, "max_fun_evals": 200, "tol_fun": 1e-12}), x0_dtype="float32")
           for D in (1, 2) for g in ("lin2", "lin", "log2") for t in ("sphere_out", "sphere_below")]
    st = explore(lg, ["ans"], 0, sink, stats=st, name="long/faces")
    # (g) starts just beyond the 0.1% margin of a hard bound, also with coarse search grids (the snapped start may cross the bound)
    nb = [job(D, g, x0, "det", "sphere_out", None, seeds[0], opts=dict(o, max_fun_evals=12, tol_mesh=1e-6)) for D in (1, 2) for g in ("lin", "lin2", "log", "log2", "tight")
          for x0 in ("near_ub", "near_lb", "near_ub3", "near_lb3") for o in ({}, {"search_grid_number": 4}, {"search_grid_number": 2}, {"search_grid_number": 7})]
    st = explore(nb, ["ans"], 0, sink, stats=st, name="starts-near-bounds")
    # (h) mesh re-expansion pressing on off-grid bounds (noisy runs re-expand after refinements; search_mesh_expand forces it)
    rx = [job(D, g, "in", m, "sphere_out", None, s, opts=dict(o, max_fun_evals=70 if m == "det" else 90)) for D in (1, 2) for g in ("lin2", "log2")
          for m in ("det", "decl") for o in ({}, {"search_mesh_expand": 1}) for s in (seeds + [seeds[0] + 11, seeds[0] + 12] if not q else seeds + [seeds[0] + 11])]
    st = explore(rx, ["ans", "noise"], 0, sink, stats=st, name="mesh-re-expansion")
    # (i) a target that overwrites its argument in place: the logged point must stay the point that was evaluated
    mu = [dict(job(D, g, "in", m, "sphere_out", None, seeds[0]), mutate_arg=True) for D in (1, 2) for g in ("lin", "log", "unb", "mixed") for m in ("det", "decl")
          if not (g == "mixed" and D == 1)]
    st = explore(mu, ["ans", "noise"], 0, sink, stats=st, name="argument-overwritten")
    # (f) option variants
    sw = sweep_jobs(lambda D, m, o: job(D, "log2" if D == 1 else "lin", "ub", m, "sphere_out", None, seeds[0], opts=o), q)
    st = explore(sw, ["ans", "noise"], 0, sink, stats=st, name="option-variants")
    sink.finish_cov(st)
    # (e) E3: complete table of the search-bound rounding
    lat = [-np.inf, -5.0, -2.5, -1.0 - 2.0**-11, -1.0, -1.0 + 2.0**-11, -0.3, -1e-7, 0.0]
    lat_u = [np.inf, 5.0, 2.5, 1.0 + 2.0**-11, 1.0, 1.0 - 2.0**-11, 0.3, 1e-7, 3.0 * np.log(10) / np.log(100) + 0.5]
    cells = [(e, lb, ub) for e in range(0, -25, -1) for lb in lat for ub in lat_u]
    out = pmap(search_bounds_cell, cells, chunksize=64)
    for cell, bad in out:
        for b in bad:
            rep.violation("search box rounding leaves the hard box or the mesh", "search-bounds/%s" % b, cell, dict(kind="search-bounds", cell=list(cell)))
    rep.set("search_bound_cells", len(cells))
    rep.set("gate_jobs", ng)
    rep.sample(dict(search_bounds_cell=[-12, -2.5, 1.0 + 2.0**-11]))
    vacuity_floor(rep, sink, 300)
    return rep.finish(replay)
