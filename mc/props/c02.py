"""C02 -- non-box constraints: no infeasible point is evaluated or returned; infeasible starts are rejected.
E1 over constraint family x geometry x mode x D with scripts, plus the start-point cells."""
import math

import numpy as np

from ..common import Report
from ..e1 import E1Sink, gate, replay_case, vacuity_floor
from ..explore import explore
from ..optsweep import sweep_jobs
from .. import problems as P

PID = "C02"
MON = ["C02"]
replay = replay_case(PID)
MESH = 2.0**-10


_SNAP = {}


def snapped_x0_coord0(geo, D):
    """Coordinate 0 of the default start after the library snapped it to its initial search mesh.  Read from an
    unconstrained construction of the same problem: this only *places* the thin slab on a feasible mesh point
    (the library silently moves plausible bounds that are within 0.1% of the hard bounds, which changes the
    internal scaling); it is not an oracle."""
    if (geo, D) not in _SNAP:
        from pybads import BADS

        lb, ub, plb, pub, logc = P.geometry(geo, D)
        b = BADS(lambda x: 0.0, P.start_point("in", geo, D), lb.reshape(1, D), ub.reshape(1, D), plb.reshape(1, D), pub.reshape(1, D),
                 options={"display": "off"})
        _SNAP[(geo, D)] = float(b.var_transf.inverse_transf(np.atleast_2d(b.optim_state["u"]))[0, 0])
    return _SNAP[(geo, D)]


def slab_start(geo, D):
    """Start point for the slab: the default start with coordinate 0 moved onto its own snapped image, so that
    the start is feasible both as given and after snapping."""
    x = P.start_point("in", geo, D)[0].tolist()
    x[0] = snapped_x0_coord0(geo, D)
    return x


def cons_spec(name, geo, D):
    if name == "slab":
        return ["slab", snapped_x0_coord0(geo, D), 1e-7]
    if name in ("half", "half_r", "half_c"):
        return P.half_for("in", geo, D, real=True if name.endswith("_r") else ("col" if name.endswith("_c") else False))
    return name


def job(D, geo, mode, cons, seed, base="F", target=None, opts=None, x0="in", expect=None, cell=None):
    o = {"tol_mesh": 2.0**-4, "max_fun_evals": (30 + 15 * D) if mode == "det" else 55}
    if mode != "det":
        o["noise_final_samples"] = 2
    if opts:
        o.update(opts)
    if cons == "slab" and x0 == "in":
        x0 = slab_start(geo, D)
    j = dict(D=D, geo=geo, x0=x0, mode=mode, target=target or ("adv" if mode == "det" else "sphere_corner"),
             cons=cons if isinstance(cons, list) else cons_spec(cons, geo, D), base=base, seed=seed, opts=o, monitors=MON, script={})
    if expect:
        j["expect"] = expect
        j["cell"] = cell
    return j


def start_cells(seed):
    """x0 feasible / infeasible / crossing the boundary when snapped to the mesh (both directions)."""
    step = 2.0 * MESH  # one search-mesh step in x units for the 'lin' geometry (gamma = 2)
    cells = []
    for D in (1, 2):
        rest = [-0.5] * (D - 1)
        rs = sum(rest[:1])
        # snapped image of 1.0006 is 1.0 (down), of 0.9994 is 1.0 (up)
        cells.append(("feasible-interior", [1.0] + rest, 3.0, "accept"))
        cells.append(("infeasible", [1.0] + rest, 0.2 + rs, "reject"))
        cells.append(("snap-crosses-out", [0.9994] + rest, 0.9997 + rs, "reject"))      # x0 feasible, snapped (1.0) infeasible
        cells.append(("given-infeasible-snap-feasible", [1.0006] + rest, 1.0003 + rs, "reject"))  # x0 infeasible as given
        cells.append(("snap-stays-feasible", [1.0006] + rest, 1.0010 + rs, "accept"))
        cells.append(("on-boundary", [1.0] + rest, 1.0 + rs, "accept"))                 # C(x) = 0 is feasible (violation is > 0)
        out = []
        for name, x0, c, exp in cells[-6:]:
            for mode in ("det", "decl"):
                out.append(job(D, "lin", mode, ["half", c], seed, x0=x0, expect=exp, cell="%s/D%d" % (name, D), opts={"max_fun_evals": 12 if mode == "det" else 45}))
        yield from out


def run(ctx):
    rep = Report(ctx, "model_checking")
    q = ctx.quick
    seeds = ctx.seeds(1, 2)
    rep.assumptions += ["constraint family {half-space, ball, thin slab, annulus}; D<=2 (quick) / D<=3 (thorough); seeds %s" % seeds,
                        "don't-care: starts whose images (as given / nudged off a hard bound / re-snapped) disagree on feasibility are not in the cell set"]
    ng = gate([job(2, "log", "det", "annulus", seeds[0]), job(1, "lin", "decl", "ball", seeds[0])])
    sink = E1Sink(rep, PID)
    Ds = (1, 2) if q else (1, 2, 3)
    base = [job(D, g, m, c, s) for D in Ds for g in ("lin", "log") for m in ("det", "decl") for c in ("half", "ball", "slab", "annulus") for s in seeds]
    base += [job(D, g, "det", c, seeds[0], target=t) for D in Ds for g in ("lin", "log") for c in ("half", "ball", "annulus") for t in ("sphere_corner", "sphere_out")]
    base += [job(D, "lin", m, c, seeds[0], x0="absent") for D in Ds for m in ("det", "decl") for c in ("ball",)]
    # the remaining noise modes (the filter must not depend on how the noise is handled) and fully unbounded problems
    base += [job(D, g, m, c, seeds[0], target="sphere_out") for D in Ds for g in ("lin", "log2") for m in ("spec", "auto") for c in ("half", "ball", "annulus", "ball_r")]
    base += [job(D, "unb", m, c, seeds[0], target=t) for D in Ds for m in ("det", "decl", "spec") for c in ("ball", "half", "annulus") for t in ("sphere_out", "sphere_corner")]
    # constraints returning a column vector (N, 1)
    base += [job(D, g, m, c, seeds[0], target="sphere_out") for D in Ds for g in ("lin", "log2") for m in ("det", "decl") for c in ("half_c", "ball_c", "annulus_c")]
    # real-valued constraints (amount of violation; small positive values near the boundary) and further geometries
    base += [job(D, g, m, c, seeds[0], target=t) for D in Ds for g in ("lin", "log2", "lin2") for m in ("det", "decl") for c in ("half_r", "ball_r", "annulus_r")
             for t in (("adv", "sphere_out") if m == "det" else ("sphere_out",))]
    st = explore(base, ["ans", "noise"], 0, sink, name="matrix/b0")
    adv = [job(D, g, "det", c, seeds[0], base=b) for D in Ds for g in ("lin", "log") for c in ("half", "ball", "annulus") for b in ("F", "S4")]
    st = explore(adv, ["ans"], 1 if q else 2, sink, stats=st, name="adv/b", pos_ok=(lambda k, p, r: p < 12) if q else None,
                 cap=None if q else st["executions"] + 10000)
    nz = [job(D, "lin", "decl", c, seeds[0]) for D in Ds[:2] for c in ("ball", "half")]
    st = explore(nz, ["noise"], 1, sink, stats=st, name="noisy/b1", pos_ok=lambda k, p, r: p % (6 if q else 2) == 0)
    # initial-design points: for every design point the unconstrained run evaluates, a half-space whose boundary passes a hair
    # inside that (mesh-snapped) point, on every axis - the snapped point is infeasible while the raw design point it came
    # from may be feasible, so a filter applied before the snap lets it through
    probe = [dict(job(D, g, m, None, seeds[0], target="sphere_out"), want_init_points=True, monitors=[]) for D in (1, 2) for g in ("lin", "lin2") for m in ("det", "decl")]
    from ..common import pmap
    from ..harness import execute
    db = []
    for pj, pr in zip(probe, pmap(execute, probe)):
        pts = pr.get("init_points") or []
        if len(pts) < 3:
            continue
        x0p = np.array(pts[0])
        for p_ in pts[1:]:
            p_ = np.array(p_)
            if np.array_equal(p_, x0p):
                continue
            for ax in range(pj["D"]):
                if p_[ax] == x0p[ax]:
                    continue
                sg = 1.0 if p_[ax] > x0p[ax] else -1.0
                c_ = float(p_[ax] - sg * 1e-9 * max(1.0, abs(p_[ax])))
                db.append(job(pj["D"], pj["geo"], pj["mode"], ["halfax", ax, sg, c_], seeds[0], target="sphere_out"))
    st = explore(db, ["ans", "noise"], 0, sink, stats=st, name="design-boundary")
    rep.set("design_boundary_jobs", len(db))
    # starts next to a hard bound that the library moves when it snaps them (nearest mesh node outside the box -> pulled one
    # cell inwards): the point that is finally evaluated first is read off an unconstrained construction, and a half-space
    # is placed between it and the start as given - the start is feasible, its image is not, so the definition must be
    # rejected before the target is called
    pr2 = [dict(job(D, g, "det", None, seeds[0], target="sphere_out", x0=x0k, opts=dict(o, max_fun_evals=8)), want_init_points=True, monitors=[])
           for D in (1, 2) for g in ("log", "log2", "lin2", "log3", "lin") for x0k in ("near_ub", "near_lb", "near_ub3", "near_lb3", "ub", "lb")
           for o in ({}, {"search_grid_number": 4}, {"search_grid_number": 2})]
    adj = []
    for pj, prr in zip(pr2, pmap(execute, pr2)):
        pts = prr.get("init_points") or []
        if not pts:
            continue
        given = np.ravel(P.start_point(pj["x0"], pj["geo"], pj["D"]))
        first = np.array(pts[0])
        for ax in range(pj["D"]):
            if first[ax] == given[ax]:
                continue
            c_ = 0.5 * (first[ax] + given[ax])
            sg = 1.0 if first[ax] > given[ax] else -1.0     # violated on the side of the evaluated image
            adj.append(dict(job(pj["D"], pj["geo"], "det", ["halfax", ax, sg, float(c_)], seeds[0], target="sphere_out", x0=pj["x0"], opts=dict(pj["opts"])),
                            expect="reject", cell="moved-image-infeasible/%s/%s/D%d" % (pj["geo"], pj["x0"], pj["D"])))
    st = explore(adj, [], 0, sink, stats=st, name="moved-start-cells")
    rep.set("moved_start_cells", len(adj))
    cells = list(start_cells(seeds[0]))
    st = explore(cells, [], 0, sink, stats=st, name="start-cells")
    sw = sweep_jobs(lambda D, m, o: job(D, "lin", m, "ball_r" if D == 2 else "half", seeds[0], target="sphere_out", opts=o), q, modes=("det", "decl"))
    st = explore(sw, ["ans", "noise"], 0, sink, stats=st, name="option-variants")
    sink.finish_cov(st)
    rep.set("start_cells", len(cells))
    rep.set("gate_jobs", ng)
    vacuity_floor(rep, sink, 200)
    return rep.finish(replay)
