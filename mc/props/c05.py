"""C05 -- noisy targets: the reported estimate is the mean of fresh samples at the returned x.
E1 over mode x noise_final_samples x complete budget window x D x geometry x noise scripts; noise-test cells."""
import numpy as np

from ..common import Report, pmap
from ..e1 import E1Sink, gate, replay_case, vacuity_floor
from ..explore import explore
from ..optsweep import sweep_jobs
from ..harness import execute

PID = "C05"
MON = ["C05"]
replay = replay_case(PID)


SEM = {"ddof": None}   # convention of the standard error, measured on runs with several final samples (see run())


def job(D, geo, mode, nfs, mfe, seed, target="sphere_in", opts=None, script=None):
    o = {"max_fun_evals": mfe, "noise_final_samples": nfs}
    if opts:
        o.update(opts)
    return dict(D=D, geo=geo, x0="in", mode=mode, target=target, cons=None, seed=seed, opts=o, monitors=MON, script=script or {}, sem_ddof=SEM["ddof"])


def run(ctx):
    rep = Report(ctx, "model_checking")
    q = ctx.quick
    seeds = ctx.seeds(1, 2)
    rep.assumptions += ["noise classes {alt, LOW, HIGH} of size 0.5*(1+..) around smooth landscapes; seeds %s" % seeds,
                        "standard-error convention measured on multi-sample runs; budgets below the initial design are outside the statement"]
    # the statement says "standard error" without fixing population vs sample SD: take the convention the implementation
    # shows with 3 and 5 final samples and hold *every* run to it (a single final sample gives a 2-element yval_vec)
    SEM["ddof"] = None
    conv = set()
    for r in pmap(execute, [job(1, "lin", m, n_, 70, seeds[0]) for m in ("decl", "spec") for n_ in (3, 5)]):
        st_ = r.get("stats", {})
        m0, m1 = st_.get("sem_match_ddof0", 0), st_.get("sem_match_ddof1", 0)
        if m0 and not m1:
            conv.add(0)
        elif m1 and not m0:
            conv.add(1)
    if len(conv) == 1:
        SEM["ddof"] = conv.pop()
    rep.set("standard_error_convention_ddof", SEM["ddof"])
    ng = gate([job(1, "lin", "spec", 1, 60, seeds[0]), job(2, "log", "auto", 3, 70, seeds[0], script={"noise": {"9": "LOW"}})])
    sink = E1Sink(rep, PID)
    # N_init per (mode, D): measured on the implementation
    probe = [job(D, "lin", m, 3, 90, seeds[0]) for m in ("auto", "decl", "spec") for D in (1, 2)]
    ninit = {}
    for j, r in zip(probe, pmap(execute, probe)):
        ninit[(j["mode"], j["D"])] = r["n_init"]
    rep.set("n_init_measured", {"%s/D%d" % k: v for k, v in ninit.items()})
    # (a) complete budget window x nfs x mode x D (b=0), incl. runs that finish during poll iteration 0
    base = []
    for (mode, D), n0 in sorted(ninit.items()):
        if q and D == 2 and mode == "auto":
            continue
        for nfs in (0, 1, 3):
            for mfe in range(n0, n0 + 2 * D + nfs + 7):
                base.append(job(D, "lin", mode, nfs, mfe, seeds[0]))
    # Sto-BADS incumbent rule with a single final sample: the supplementary entry must still be an observation
    for (mode, D), n0 in sorted(ninit.items()):
        if mode == "auto" or (q and D == 2 and mode == "decl"):
            continue
        for mfe in range(n0, n0 + 26, 1 if D == 1 else 2):
            base.append(job(D, "lin", mode, 1, mfe, seeds[0], opts={"stobads": True}))
    # uncertainty_handling given explicitly as False with a noisy target: the start-point test still decides
    base += [job(D, "lin", "auto", nfs, ninit[("auto", D)] + 9, seeds[0], opts={"uncertainty_handling": v}) for D in (1, 2) for nfs in (1, 3) for v in (False, 0)]
    # very small (but valid) reported SDs: ysd_vec holds exactly what the target reported
    base += [dict(job(D, g, "spec", nfs, ninit[("spec", D)] + 12, seeds[0]), sd_scale=sc) for D in (1, 2) for g in ("lin", "log") for nfs in (1, 3) for sc in (1e-9, 1e-12, 1e3)]
    st = explore(base, ["noise"], 0, sink, name="budget-window/b0")
    # (b) noise scripts <= b on medium runs: a LOW outlier makes an early iterate look best (swap to an earlier iterate)
    med = [job(D, g, m, nfs, 62 + 8 * D, s, target=t) for D in ((1,) if q else (1, 2)) for g in ("lin", "log") for m in ("auto", "decl", "spec")
           for nfs in (0, 1, 3) for t in (("sphere_in",) if q else ("sphere_in", "sphere_corner")) for s in seeds]
    st = explore(med, ["noise"], 1, sink, stats=st, name="noise-scripts/b1", pos_ok=lambda k, p, r: (p % 2 == 0 and p >= 30) if q else True,
                 cap=None if q else st["executions"] + 6000)
    if not q:
        st = explore([job(1, "lin", m, 1, 60, seeds[0]) for m in ("decl", "spec")], ["noise"], 2, sink, stats=st, name="noise-scripts/b2-window",
                     pos_ok=lambda k, p, r: 34 <= p < 52, cap=st["executions"] + 4000)
    # (c) noise-test cells (det/auto boundary)
    eps = float(np.spacing(1.0))
    cells = []
    for D in (1, 2):
        for delta in (0.0, 1e-25, 1e-19, 3e-19, 1e-10, 1.0):
            j = dict(D=D, geo="lin", x0="in", mode="det", target="sphere_in", cons=None, seed=seeds[0], monitors=MON,
                     opts={"max_fun_evals": 45, "noise_final_samples": 2}, script={"second": delta}, tol_noise_check=eps * 1e-3)
            cells.append(j)
        for delta in (0.0, 1e-300):
            j = dict(D=D, geo="lin", x0="in", mode="det", target="sphere_in", cons=None, seed=seeds[0], monitors=MON,
                     opts={"max_fun_evals": 45, "noise_final_samples": 2, "tol_noise": 0.0}, script={"second": delta}, tol_noise_check=0.0)
            cells.append(j)
        for delta in (0.0, 1.0):
            for v in (False, 0):
                cells.append(dict(D=D, geo="lin", x0="in", mode="det", target="sphere_in", cons=None, seed=seeds[0], monitors=MON,
                                  opts={"max_fun_evals": 45, "noise_final_samples": 2, "uncertainty_handling": v}, script={"second": delta}, tol_noise_check=eps * 1e-3))
        for delta in (0.4, 0.6):
            j = dict(D=D, geo="lin", x0="in", mode="det", target="sphere_in", cons=None, seed=seeds[0], monitors=MON,
                     opts={"max_fun_evals": 45, "noise_final_samples": 2, "tol_noise": 0.5}, script={"second": delta}, tol_noise_check=0.5)
            cells.append(j)
    st = explore(cells, [], 0, sink, stats=st, name="noise-test-cells")
    sw = sweep_jobs(lambda D, m, o: job(D, "lin", m, o.pop("noise_final_samples", 1 if D == 1 else 3), 64, seeds[0], opts=o), q, modes=("auto", "decl", "spec"))
    st = explore(sw, ["noise"], 0, sink, stats=st, name="option-variants")
    sink.finish_cov(st)
    rep.set("gate_jobs", ng)
    vacuity_floor(rep, sink, 150)
    return rep.finish(replay)
