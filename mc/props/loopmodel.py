"""Shared decision procedure of C03 and C13 (DESIGN 2.4, 4.3, 4.13):
 (a) TLC model-checks models/BadsLoop.tla over a constant matrix (invariants + <>fin),
 (b) every driven model path (or an edge cover) is replayed on the real optimize(),
 (c) a deviation-bounded E1 exploration whose every abstract trace is judged by TLC with StepC.
Violations are filed under C03 or C13; the Report of the calling check only reports its own."""
import copy
import json
import math

from ..common import HarnessError, Report, pmap
from ..e1 import E1Sink, gate, replay_case, vacuity_floor
from ..explore import explore
from ..harness import execute
from .. import tlc

FIELDS = ["sc", "ss", "k", "fc", "np", "pit", "polls", "lvl", "fin", "msg"]


def mk_const(D, ntry, n0, np0, maxfe, maxiter, tolk, tsi, acc_steps, accel, cp, free, keeplab):
    return dict(D=D, NTry=ntry, N0=n0, NP0=min(np0, D + 1), MaxFE=maxfe, MaxIter=maxiter, TolK=tolk, Cap=0, TSI=tsi,
                AccSteps=acc_steps, Accel=accel, CompletePoll=cp, Free=free, KeepLab=keeplab)


def driven_job(D, const, path_labels, variant, seed):
    phase = []
    for l in path_labels:
        d = {}
        if l["sa"] in ("F", "I", "S"):
            d["search"] = l["sa"]
        n, nS = l["n"], l["nS"]
        if n:
            d["poll"] = (["S"] * nS + ["F"] * (n - nS)) if variant == "first" else (["F"] * (n - nS) + ["S"] * nS)
        phase.append(d)
    return dict(D=D, geo="unb", mode="det", target="adv", x0="in", seed=seed, monitors=["C03", "C13"],
                script={"phase": phase},
                opts={"max_fun_evals": const["MaxFE"], "max_iter": const["MaxIter"], "tol_mesh": 2.0 ** (-const["TolK"]),
                      "complete_poll": True, "accelerate_mesh": const["Accel"]})


def abs_state(pr, D, driven):
    return dict(sc=pr["sc"], ss=pr["ss"], k=pr["k"], fc=pr["fc"], np=min(pr["np"], D + 1), pit=pr["pit"], polls=pr["polls"],
                lvl=pr["lvl"] if driven else 0, fin=pr["fin"], msg=pr["msg"])


def _replay_one(item):
    job, model_states, model_labels = item
    res = execute(job)
    D = job["D"]
    out = dict(status="ok", field=None, step=None, exc=res["exc"], viol=res["viol"], detail=None)
    probes = res["probes"]
    if res.get("repeat_in_loop"):
        # the optimizer re-evaluated an already evaluated point; the adversarial target must answer what it
        # answered before, so the scripted answer could not be forced: the path is not judged
        out["status"] = "unforceable"
        return out
    for i, (ms, ml) in enumerate(zip(model_states, model_labels)):
        if i >= len(probes):
            out.update(status="short", step=i, detail="implementation stopped after %d loop iterations, model path has %d" % (len(probes), len(model_states)))
            if res["exc"] is not None:
                out["status"] = "aborted"
            return out
        pr = probes[i]
        lab = pr["lab"]
        searched = lab["sa"] != "none"
        if searched != (ml["sa"] != "none"):
            out.update(status="mismatch", field="search-decision", step=i, detail=(lab, ml))
            return out
        if lab["polled"] != (ml["n"] > 0 or _model_polls(model_states, i)):
            out.update(status="mismatch", field="poll-decision", step=i, detail=(lab, ml))
            return out
        if lab["n"] != ml["n"]:
            out.update(status="diverged-n", step=i, detail=(lab["n"], ml["n"]))
            return out
        if searched and lab["sa"] != ml["sa"]:
            out.update(status="mismatch", field="search-outcome", step=i, detail=(lab["sa"], ml["sa"]))
            return out
        a = abs_state(pr, D, True)
        for f in FIELDS:
            if a[f] != ms[f]:
                out.update(status="mismatch", field=f, step=i, detail=(a, {k: ms[k] for k in FIELDS}))
                return out
    if len(probes) > len(model_states):
        out.update(status="mismatch", field="fin", step=len(model_states), detail="implementation continued after the model finished")
    return out


def _model_polls(model_states, i):
    prev = model_states[i - 1]["polls"] if i > 0 else 0
    return model_states[i]["polls"] > prev


def measure(D, mode, opts, seed):
    """Baseline run of the implementation to read N0, NP0, NTry, TSI, AccSteps."""
    job = dict(D=D, geo="unb" if mode == "det" else "lin", mode=mode, target="adv" if mode == "det" else "sphere_in", x0="in",
               seed=seed, monitors=[], opts=dict(opts, tol_mesh=0.25))
    res = pmap(execute, [job])[0]
    if res["exc"] is not None or "impl" not in res or "error" in res["impl"]:
        raise HarnessError("baseline measurement failed: %s %s" % (res["exc"], res.get("impl")))
    im = res["impl"]
    return dict(n0=res["n_init"], np0=im["np_init"], ntry=im["ntry"], tsi=im["tsi"], acc=im["acc_steps"])


def free_trace(job, res):
    """(config record, steps) of one E1 execution for TLC validation, or None if not judgeable."""
    im = res.get("impl")
    if not im or "error" in im or res["n_init"] is None or not res["probes"] or job.get("no_trace"):
        return None   # (no_trace: the job runs a documented switch the controller model does not describe)
    D = job["D"]
    uo = job.get("opts") or {}
    mfe = int(uo.get("max_fun_evals", 500 * D))
    if mfe < res["n_init"]:
        return None  # outside the stated precondition
    noisy = (res["result"] or {}).get("target_type", "deterministic" if job.get("mode", "det") == "det" else "stochastic") != "deterministic"
    if res["result"] is None:
        noisy = job.get("mode", "det") != "det"
    nfs = int(uo.get("noise_final_samples", 10)) if noisy else 0
    maxfe_eff = mfe - max(0, min(nfs, mfe - res["n_init"]))
    tm = uo.get("tol_mesh", 1e-6)
    tolk = -int(math.ceil(math.log(tm) / math.log(2.0) - 1e-12))
    c = dict(D=D, NTry=im["ntry"], N0=res["n_init"], NP0=min(im["np_init"], D + 1), MaxFE=maxfe_eff,
             MaxIter=int(uo.get("max_iter", 200 * D)), TolK=tolk, Cap=0, TSI=im["tsi"], AccSteps=im["acc_steps"],
             Accel=bool(uo.get("accelerate_mesh", True)), CompletePoll=bool(uo.get("complete_poll", False)), Free=True)
    steps = []
    prev = dict(sc=c["NTry"], ss=0, k=0, fc=c["N0"], np=c["NP0"], pit=0, polls=0, lvl=0, hist=[], fin=False, msg="")
    for pr in res["probes"]:
        t = abs_state(pr, D, False)
        t["hist"] = []
        lab = pr["lab"]
        polled = lab["polled"]
        l = dict(sa=lab["sa"], n=lab["n"], nS=0, good=bool(polled and t["k"] >= prev["k"]),
                 stallA=bool(polled and t["k"] == prev["k"] - 2), stallT=(t["msg"] == "fun"),
                 dnp=max(0, t["np"] - prev["np"]))
        steps.append(dict(s=_order(prev), l=l, t=_order(t)))
        prev = t
    return dict(c=c, steps=steps)


def _order(s):
    return dict(sc=s["sc"], ss=s["ss"], k=s["k"], fc=s["fc"], np=s["np"], pit=s["pit"], polls=s["polls"], lvl=s["lvl"],
                hist=s["hist"], fin=s["fin"], msg=s["msg"])


def run_loop(ctx, pid):
    rep = Report(ctx, "model_checking")
    q = ctx.quick
    seed = ctx.seeds(1, 1)[0]
    rep.assumptions += [
        "advanced switches (stobads, skip_poll_after_search, search_mesh_expand, search_size_locked, force_poll_mesh, sloppy_improvement, max_poll_grid_number) at defaults",
        "budgets below the initial design size are outside the stated precondition and not judged",
        "model abstracts the incumbent value to the number of large improvements (driven mode) or drops it (free mode)",
    ]
    other = "C13" if pid == "C03" else "C03"

    def file(prop, clause, key, detail, case):
        rep.violation(clause, key, detail, case, prop=prop)

    # ---------------- (a) TLC: invariants + liveness over the constant matrix
    meas = {D: measure(D, "det", {}, seed) for D in (1, 2)}
    tlc_states = tlc_gen = 0
    cfgs = []
    for D in (1, 2):
        m = meas[D]
        for accel in (True, False):
            for cp in (False, True):
                for tolk in ((3,) if q else (3, 5)):
                    extra = (10 if D == 1 else 9) if q else (14 if D == 1 else 16)
                    cfgs.append(mk_const(D, m["ntry"], m["n0"], m["np0"], m["n0"] + extra, 6 if q else 10, tolk, m["tsi"], m["acc"], accel, cp, True, False))
    # driven configurations (small) also get invariants + liveness; their full state graph is replayed below
    drv = []
    for D in (1, 2):
        m = meas[D]
        for accel in ((True, False) if (D == 1 or not q) else (True,)):
            extra = (8 if D == 1 else 9) if q else (10 if D == 1 else 12)
            drv.append(mk_const(D, m["ntry"], m["n0"], m["np0"], m["n0"] + extra, 6 if q else 7, 3, m["tsi"], m["acc"], accel, True, False, True))
    jobs = [(c, True, False, (D == 1 and True)) for c in cfgs for D in [c["D"]]] + [(c, True, False, True) for c in drv]
    results = pmap(_tlc_job, jobs)
    for (c, _, _, _), r in zip(jobs, results):
        if not r["ok"]:
            errs = " | ".join(r["errors"])[:300]
            kind = "C13" if ("MeshCap" in errs or "SearchLE" in errs or "MeshFloor" in errs) else "C03"
            file(kind, "TLC: invariant or liveness violated in the controller model", "tlc/%s" % _ckey(c), errs or r["out"][-400:], dict(kind="tlc", const=c))
        tlc_states += r["states"]
        tlc_gen += r["generated"]
    rep.set("tlc_configs", len(jobs))
    rep.set("tlc_distinct_states", tlc_states)
    rep.set("tlc_states_generated", tlc_gen)

    # ---------------- (b) replay of driven model paths on the implementation
    n_paths = n_replays = n_div = n_unf = 0
    path_caps = []
    followed = 0
    for c in drv:
        r = pmap(_tlc_job, [(c, False, True, False)])[0]
        if r["dot"] is None:
            raise HarnessError("TLC wrote no state graph for %s: %s" % (_ckey(c), r["out"][-300:]))
        nodes, edges, init = tlc.parse_dot(r["dot"])
        cap = 3000 if q else 12000
        paths, capped = tlc.all_paths(nodes, edges, init, cap=cap)
        mode_txt = "all-paths"
        if capped:
            paths = tlc.edge_cover_paths(nodes, edges, init)
            mode_txt = "edge-cover"
            path_caps.append("%s: more than %d complete paths, replayed an edge cover of %d paths instead" % (_ckey(c), cap, len(paths)))
        n_paths += len(paths)
        items = []
        for p in paths:
            ms = [nodes[n]["st"] for n in p[1:]]
            ml = [nodes[n]["lab"] for n in p[1:]]
            for variant in ("first", "last"):
                if variant == "last" and not any(0 < l["nS"] < l["n"] for l in ml):
                    continue
                items.append((driven_job(c["D"], c, ml, variant, seed), ms, ml))
        outs = pmap(_replay_one, items, chunksize=4)
        n_replays += len(items)
        for (job, ms, ml), o in zip(items, outs):
            if o["status"] == "ok":
                followed += 1
            elif o["status"] == "diverged-n":
                n_div += 1
            elif o["status"] == "unforceable":
                n_unf += 1
            elif o["status"] == "aborted":
                rep.abort(o["exc"])
            else:
                prop = "C13" if o["field"] == "k" else "C03"
                file(prop, "implementation does not follow a model path of the loop controller",
                     "conformance/%s" % o["field"], dict(step=o["step"], detail=o["detail"]), dict(kind="replay", job=job, ms=ms, ml=ml))
            for prop, clause, key, detail, cnt in o["viol"]:
                file(prop, clause, key, detail, job)
        rep.sample(dict(driven_config=_ckey(c), graph_states=len(nodes), graph_edges=sum(len(v) for v in edges.values()),
                        complete_paths=len(paths), mode=mode_txt, first_path_labels=[nodes[n]["lab"]["sa"] + str(nodes[n]["lab"]["n"]) for n in paths[0][1:]] if paths else []))
    for pc in path_caps:
        rep.cap_hit(pc)
    rep.set("model_paths", n_paths)
    rep.set("model_path_replays", n_replays)
    rep.set("model_path_replays_followed", followed)
    rep.set("model_path_replays_diverged_on_poll_size", n_div)
    rep.set("model_path_replays_unforceable_repeat", n_unf)
    if n_replays and followed < 0.8 * n_replays and not rep.viol:
        raise HarnessError("only %d of %d model paths could be followed by the implementation" % (followed, n_replays))

    # ---------------- (c) E1 exploration, every trace judged by TLC (free model)
    traces = []
    trace_jobs = []

    def extra(job, res, depth):
        t = free_trace(job, res)
        if t is not None:
            t["completed"] = res["exc"] is None
            traces.append(t)
            trace_jobs.append(job)

    sink = E1Sink(rep, pid, extra=extra)
    ng = gate([_e1job(1, "det", {}, seed), _e1job(1, "decl", {"max_fun_evals": 50, "noise_final_samples": 1}, seed)])
    base = []
    for D in (1, 2):
        for cp in (False, True):
            for accel in (True, False):
                for mi in ((2, None) if q else (1, 2, 3, None)):
                    o = {"complete_poll": cp, "accelerate_mesh": accel, "tol_mesh": 2.0**-3}
                    if mi:
                        o["max_iter"] = mi
                    base.append(_e1job(D, "det", o, seed))
    st = explore(base, ["ans"], 1, sink, name="det/b1", cap=None if q else 10000)
    # budget window (complete), deterministic
    bw = []
    for D in (1, 2):
        n0 = meas[D]["n0"]
        for mfe in range(n0, n0 + 2 * D + 7):
            for b in ("F", "S4", "I"):
                bw.append(_e1job(D, "det", {"max_fun_evals": mfe}, seed, base=b))
    st = explore(bw, ["ans"], 0 if q else 1, sink, stats=st, name="det/budget-window")
    # user-set fun_eval_start: budgets at and just above the documented design size (deterministic: x0, its repeat, 2^k >= fun_eval_start
    # Sobol points, one block more when 2^k equals D)
    ds = []
    for D in (1, 2, 3):
        for fes in (1, 2, 3, 4, 5, 8, 16):
            k = int(math.ceil(math.log2(fes)))
            if 2 ** k == D:
                k += 1
            rule = 2 ** k + 2
            for extra_ in (0, 2, 5):
                j = _e1job(D, "det", {"max_fun_evals": rule + extra_, "fun_eval_start": fes}, seed, base="S4")
                j["n_init_rule"] = rule
                ds.append(j)
    st = explore(ds, ["ans"], 0, sink, stats=st, name="det/design-size-rule")
    # default tolerances, longer runs, all base policies
    lg = [_e1job(D, "det", {"max_fun_evals": 40 + 30 * D, "complete_poll": cp}, seed, base=b) for D in (1, 2) for cp in (False, True) for b in ("F", "I", "S4", "E3")]
    # small logger caches: the arrays grow repeatedly during the run (growth may fall on a search-only loop pass)
    lg += [_e1job(D, m, dict({"max_fun_evals": 60 if m == "det" else 75, "cache_size": cs}, **({} if m == "det" else {"noise_final_samples": 2})), seed, base=b)
           for D in (1, 2) for m in ("det", "decl") for cs in (5, 12, 30, 31) for b in (("F", "I") if m == "det" else ("F",))]
    st = explore(lg, ["ans"], 0, sink, stats=st, name="det/long")
    # b=2 on a window
    # threshold ties: an improvement exactly equal to the sufficient-improvement threshold is *not* sufficient
    tie = [_e1job(D, "det", {"tol_mesh": 2.0**-3, "complete_poll": cp}, seed) for D in (1, 2) for cp in (False, True)]
    # ... also where the threshold is configured differently (tol_improvement, forcing_exponent) and where an insufficient
    # improvement does not move the incumbent (sloppy_improvement=False: the stall test must keep looking at the incumbent)
    tie += [_e1job(D, "det", dict(o, tol_mesh=2.0**-5), seed) for D in (1, 2)
            for o in ({"sloppy_improvement": False}, {"tol_improvement": 0.5}, {"tol_improvement": 2.0}, {"forcing_exponent": 1.0}, {"forcing_exponent": 2.0},
                      {"sloppy_improvement": False, "accelerate_mesh_steps": 1})]
    st = explore(tie, ["ans"], 1, sink, stats=st, name="det/threshold-ties", alts={"ans": ["T"], "noise": [], "fit": [], "pred": []})
    if pid == "C03":
        # polls that are cut short ('Skip': advanced option min_failed_poll_steps finite) still count as poll iterations:
        # max_iter must stay a binding limit (the controller model does not describe this switch, so no TLC trace)
        sk = [dict(_e1job(D, "det", {"min_failed_poll_steps": mf, "max_iter": mi, "tol_mesh": 1e-8, "max_fun_evals": 200}, seed, base=b), monitors=["C03"], no_trace=True)
              for D in (1, 2, 3) for mf in (0, 1, 2) for mi in (3, 8) for b in ("F", "I", "S4")]
        st = explore(sk, ["ans"], 0, sink, stats=st, name="det/poll-cut-short")
    if pid == "C13":
        # search-triggered mesh expansion (documented option): the mesh may grow outside a poll, but never beyond the cap
        sx = [dict(_e1job(D, "det", {"search_mesh_expand": e_, "tol_mesh": 2.0**-4, "max_fun_evals": 50 + 10 * D}, seed, base=b), monitors=["C13"], no_trace=True)
              for D in (1, 2) for e_ in (1, 2) for b in ("S", "S2", "S3", "S4", "I")]
        st = explore(sx, ["ans"], 0, sink, stats=st, name="det/search-mesh-expand")
    st = explore([_e1job(1, "det", {"tol_mesh": 2.0**-3}, seed)], ["ans"], 2, sink, stats=st, name="det/b2-window",
                 pos_ok=lambda kind, pos, res: pos < (10 if q else 16))
    # noisy modes: budget windows above the initial design, noise scripts
    nz = []
    for mode in ("auto", "decl", "spec"):
        for D in ((1,) if q else (1, 2)):
            for nfs in ((1, 3) if q else (0, 1, 3)):
                for mfe in ((60,) if q else (60, 75)):
                    for cp in (False, True):
                        nz.append(_e1job(D, mode, {"max_fun_evals": mfe, "noise_final_samples": nfs, "complete_poll": cp}, seed))
    # complete budget windows just above the (measured) initial design, all noise modes
    nprobe = [_e1job(1, m, {"max_fun_evals": 90, "noise_final_samples": 3}, seed) for m in ("auto", "decl", "spec")]
    nw = []
    for j, r in zip(nprobe, pmap(execute, nprobe)):
        n0 = r["n_init"]
        for D in ((1,) if q else (1, 2)):
            for nfs in ((3,) if q else (1, 3, 10)):
                for mfe in range(n0, n0 + 13):
                    nw.append(_e1job(D, j["mode"], {"max_fun_evals": mfe, "noise_final_samples": nfs}, seed))
    st = explore(nw, ["noise"], 0, sink, stats=st, name="noisy/budget-window")
    st = explore(nz, ["noise"], 1, sink, stats=st, name="noisy",
                 pos_ok=lambda kind, pos, res: pos >= 30 and pos % (6 if q else 2) == 0, cap=None if q else st["executions"] + 8000)
    # constrained runs (possibly empty search sets)
    cs = [_e1job(D, "det", {"tol_mesh": 2.0**-3, "complete_poll": cp}, seed, cons=c, geo="lin") for D in (1, 2) for cp in (False, True) for c in ("half", "ball", "annulus")]
    # thin feasible sets: whole poll candidate sets are filtered out (polls with zero evaluations), empty search sets
    from .c02 import cons_spec, slab_start
    for D in (1, 2):
        for cp in (False, True):
            j = _e1job(D, "det", {"tol_mesh": 2.0**-4, "complete_poll": cp}, seed, cons=cons_spec("slab", "lin", D), geo="lin")
            j["x0"] = slab_start("lin", D)
            j["target"] = "sphere_in"
            cs.append(j)
            j2 = dict(j, mode="decl", opts=dict(j["opts"], max_fun_evals=50, noise_final_samples=2))
            cs.append(j2)
    st = explore(cs, ["ans"], 0 if q else 1, sink, stats=st, name="det/constrained")
    sink.finish_cov(st)
    rep.set("gate_jobs", ng)

    # TLC judges the traces in batches
    acc = 0
    B = 400
    batches = [(traces[i:i + B], i) for i in range(0, len(traces), B)]
    outs = pmap(_validate_batch, [b for b, _ in batches])
    for (batch, off), (bs, bi, bc) in zip(batches, outs):
        badidx = set()
        for i, j in bs:
            t = batch[i]
            stp = t["steps"][j]
            fld = _first_diff(t["c"], stp)
            prop = "C13" if fld == "k" else "C03"
            file(prop, "implementation step is not a step of the controller model (TLC: ~StepC)", "trace-step/%s" % fld,
                 dict(step=j, s=stp["s"], l=stp["l"], t=stp["t"], c=t["c"]), trace_jobs[off + i])
            badidx.add(i)
        for i in bi:
            file("C03", "first controller state differs from the model's initial state", "trace-init", batch[i]["steps"][0]["s"], trace_jobs[off + i])
            badidx.add(i)
        for i, j in bc:
            raise HarnessError("trace chaining broken (harness bug)")
        for i, t in enumerate(batch):
            if t["completed"] and t["steps"] and not t["steps"][-1]["t"]["fin"]:
                file("C03", "optimize() returned although the controller never reached a finished state", "trace-not-finished", "", trace_jobs[off + i])
        acc += len(batch) - len(badidx)
    rep.set("impl_traces_judged_by_tlc", len(traces))
    rep.set("impl_traces_accepted_by_tlc", acc)
    rep.set("states", max(1, tlc_states))
    rep.set("transitions", max(1, tlc_gen))
    rep.set("traces_validated_against_impl", followed + acc)
    rep.set("e1_abstract_states", len(sink.states))
    rep.set("e1_abstract_transitions", len(sink.trans))
    vacuity_floor(rep, sink, 150)
    return rep.finish(make_replay(pid))


def _first_diff(c, stp):
    """Which field of the observed successor is not explained by the model (best effort, for the key)."""
    for f in FIELDS:
        if f in ("lvl",):
            continue
    # cheap python re-evaluation is deliberately NOT done (no second copy of the model); classify by what changed oddly
    s, t, l = stp["s"], stp["t"], stp["l"]
    if not l["n"] and not (l["sa"] != "none") and t["k"] != s["k"]:
        return "k"
    if l["n"] == 0 and not _polled(s, t) and t["k"] != s["k"]:
        return "k"
    if _polled(s, t) and t["k"] not in (min(s["k"] + 1, 0), s["k"] - 1, s["k"] - 2):
        return "k"
    if _polled(s, t) and t["k"] == s["k"] - 2 and not (c["Accel"] and s["pit"] > c["AccSteps"]):
        return "k"
    return "controller"


def _polled(s, t):
    return t["polls"] > s["polls"]


def _ckey(c):
    return "D%d-%s-FE%d-IT%d-K%d-acc%d-cp%d" % (c["D"], "free" if c["Free"] else "driven", c["MaxFE"], c["MaxIter"], c["TolK"], c["Accel"], c["CompletePoll"])


def _tlc_job(a):
    c, live, dump, cand = a
    inv = list(tlc.INVARIANTS) + (["CandComplete"] if cand else [])
    return tlc.run_tlc(c, invariants=inv if not dump else (), liveness=live, dump=dump, workers=1)


def _validate_batch(batch):
    return tlc.validate_traces([dict(c=t["c"], steps=t["steps"]) for t in batch])


def _e1job(D, mode, opts, seed, base="F", cons=None, geo=None):
    geo = geo or ("unb" if mode == "det" else "lin")
    return dict(D=D, geo=geo, mode=mode, cons=cons, target="adv" if mode == "det" else "sphere_in", base=base, x0="in", seed=seed,
                monitors=["C03", "C13"], opts=dict(opts), script={})


def make_replay(pid):
    base = replay_case(pid)

    def _replay(case, key):
        if isinstance(case, dict) and case.get("kind") == "tlc":
            r = _tlc_job((case["const"], True, False, False))
            return not r["ok"]
        if isinstance(case, dict) and case.get("kind") == "replay":
            o = _replay_one((case["job"], case["ms"], case["ml"]))
            return o["status"] in ("mismatch", "short")
        if "/trace-" in key:
            res = pmap(execute, [case])[0]
            t = free_trace(case, res)
            if t is None:
                return False
            bs, bi, bc = tlc.validate_traces([dict(c=t["c"], steps=t["steps"])])
            if "trace-not-finished" in key:
                return bool(t["steps"]) and not t["steps"][-1]["t"]["fin"] and res["exc"] is None
            return bool(bs or bi)
        return base(case, key)

    return _replay
