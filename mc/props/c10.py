"""C10 -- target failures and invalid target values surface immediately and unchanged.
Fault enumeration: for every call index k of a baseline run x every fault kind x mode."""
import json

from ..common import HarnessError, Report, pmap
from ..e1 import _exec_fresh
from ..harness import FAULT_KINDS, FAULT_KINDS_SPEC, execute
from .. import problems as P

PID = "C10"
EXC = {"raise_rt": "Boom", "raise_key": "InjectedTargetError", "raise_noargs": "NoArgsError", "raise_intarg": "InjectedTargetError",
       "raise_stopiter": "StopIteration"}


def job(D, mode, cons, seed, fault=None, opts=None):
    o = {"max_fun_evals": (22 + 8 * D) if mode == "det" else 48, "noise_final_samples": 3, "tol_mesh": 2.0**-5}
    if opts:
        o.update(opts)
    c = P.half_for("in", "lin", D) if cons == "half" else None
    return dict(D=D, geo="lin", x0="in", mode=mode, target="sphere_in", cons=c, seed=seed, opts=o, monitors=[], script={"fault": fault} if fault else {},
                check_c10=True)


def judge(item):
    job_, res = item
    k, kind = job_["script"]["fault"]
    viol = []
    exp = EXC.get(kind, "ValueError")
    if kind == "tuple2" and job_["mode"] == "spec":
        return viol  # a (value, SD) pair is what specified noise expects: not a fault there
    if res["injected"] is None:
        viol.append(("fault-not-reached", "fault at call %d was never reached (run has %d calls)" % (k, res["n_calls"])))
        return viol
    if res["exc_type"] != exp:
        viol.append(("wrong-exception/%s" % kind, "got %s (%s), expected %s" % (res["exc_type"], res["exc"], exp)))
    if res["n_calls"] != k + 1:
        viol.append(("called-after-fault/%s" % kind, "%d calls, fault at %d" % (res["n_calls"], k)))
    fc = res.get("fl_func_count")
    if fc is not None and fc != k:
        viol.append(("func-count/%s" % kind, "func_count %s after a fault at call %d" % (fc, k)))
    lg = res.get("log_check")
    if lg:
        viol.append(("log-dirty/%s" % kind, lg))
    return viol


def _exec(job_):
    return job_, execute(job_)


def replay(case, key):
    res = _exec_fresh(case)
    return any(("C10/" + v[0]) == key for v in judge((case, res)))


def run(ctx):
    rep = Report(ctx, "fault_enumeration")
    q = ctx.quick
    seed = ctx.seeds(1, 1)[0]
    rep.assumptions += ["fault kinds: %s (+ %s under specified noise)" % (FAULT_KINDS, FAULT_KINDS_SPEC)]
    cfgs = [(D, m, c) for D in ((1, 2) if not q else (1, 2)) for m in ("det", "auto", "decl", "spec") for c in (None, "half")
            if not (q and (c == "half" and m in ("auto", "decl"))) and not (q and D == 2 and m in ("auto", "spec"))]
    bases = [job(D, m, c, seed) for D, m, c in cfgs]
    jobs = []
    phases_hit = set()
    for b, r in zip(bases, pmap(execute, bases)):
        if r["exc"] is not None:
            rep.abort(r["exc"])
            continue
        n = r["n_calls"]
        kinds = list(FAULT_KINDS) + (FAULT_KINDS_SPEC if b["mode"] == "spec" else [])
        for k in range(n):
            ph = r["phases"][k] if k > 1 else ("x0" if k == 0 else ("noisetest" if b["mode"] in ("det", "auto") else r["phases"][k]))
            for kind in kinds:
                j = dict(b, script={"fault": [k, kind]})
                j["_phase"] = ph
                jobs.append(j)
    out = pool_run(jobs)
    nontrivial = set()
    for j, res in out:
        for key, detail in judge((j, res)):
            rep.violation("target fault did not surface immediately and unchanged", key, detail, {k: v for k, v in j.items() if k != "_phase"})
        if res["injected"] is not None:
            phases_hit.add(j["_phase"])
            nontrivial.add((j["_phase"], j["script"]["fault"][1], j["mode"]))
    rep.set("evaluations", len(out) + len(bases))
    rep.set("distinct_nontrivial", len(nontrivial))
    rep.set("rule", "every call index of each fault-free baseline x every fault kind; non-trivial = the fault was actually reached; distinct = distinct (phase of the faulted call, fault kind, noise mode) triples")
    rep.set("phases_hit", sorted(phases_hit))
    rep.set("baselines", len(bases))
    for j, res in out[:3]:
        rep.sample(dict(mode=j["mode"], D=j["D"], fault=j["script"]["fault"], phase=j["_phase"], exception=res["exc_type"], calls=res["n_calls"]))
    need = {"x0", "init", "search", "poll", "final"}
    if not need <= phases_hit:
        raise HarnessError("fault positions did not cover all phases: %s" % sorted(phases_hit))
    return rep.finish(replay)


def pool_run(jobs):
    from ..common import pool

    return list(pool().imap_unordered(_exec, jobs, chunksize=8))
