"""C11 -- the variable transform is a faithful, order-preserving bijection onto the unit box.
E3: VariableTransformer on the complete magnitude lattice of valid bound quadruples x point lattices; D=2,3 class products."""
import itertools
import math

import numpy as np

from ..common import HarnessError, Report, pmap

PID = "C11"
MAGS = [1e-12, 1e-6, 1e-3, 0.5, 1.0, 5.0, 10.0, 100.0, 1e3, 1e6, 1e12]
M = sorted(set([-m for m in MAGS] + [0.0] + MAGS))


def quadruples(quick):
    extra = [] if quick else [2e-9, 3.0, 9.99, 10.000001, 7e4, 1e9]
    lat = sorted(set(M + extra + [-v for v in extra]))
    out = []
    for lb in [-np.inf] + lat:
        for ub in lat + [np.inf]:
            if np.isfinite(lb) != np.isfinite(ub) or lb == ub:
                continue
            for plb in lat:
                if plb < lb:
                    continue
                for pub in lat:
                    if plb < pub <= ub:
                        out.append((lb, plb, pub, ub))
    return out


def ref_log(lb, plb, pub, ub, scaling=True):
    return bool(scaling and lb > 0 and ub > 0 and plb > 0 and pub > 0 and pub / plb >= 10)


def ref_forward(p, plb, pub, islog):
    if islog:
        mu = 0.5 * (math.log(plb) + math.log(pub))
        ga = 0.5 * (math.log(pub) - math.log(plb))
        return (math.log(p) - mu) / ga
    mu = 0.5 * (plb + pub)
    ga = 0.5 * (pub - plb)
    return (p - mu) / ga


def point_lattice(lb, plb, pub, ub, islog):
    width = (ub - lb) if np.isfinite(lb) else (pub - plb)
    lo = lb if np.isfinite(lb) else plb - 10 * width
    hi = ub if np.isfinite(ub) else pub + 10 * width
    pts = [lo, plb, pub, hi, 0.5 * (plb + pub)] + list(np.linspace(lo, hi, 9))
    if islog:
        pts += [math.sqrt(plb * pub)] + list(np.geomspace(lo, hi, 9))
    pts += [float(np.nextafter(plb, hi)), float(np.nextafter(pub, lo))]
    pts = sorted(set(float(p) for p in pts if lo <= p <= hi))
    return pts, width, lo, hi


def check_block(block):
    from pybads.variable_transformer import VariableTransformer

    bad = {}
    n = 0
    npts = 0
    arr = lambda v: np.array([[v]], float)
    for (lb, plb, pub, ub, scaling) in block:
        n += 1
        q = (lb, plb, pub, ub, scaling)
        try:
            vt = VariableTransformer(1, arr(lb), arr(ub), arr(plb), arr(pub), None if scaling else np.zeros((1, 1)))
        except Exception as e:  # noqa
            bad.setdefault("construct/%s" % type(e).__name__, (q, str(e)[:60]))
            continue
        islog = ref_log(lb, plb, pub, ub, scaling)
        A_ = [arr(lb), arr(ub), arr(plb), arr(pub)]
        try:
            VariableTransformer(1, A_[0], A_[1], A_[2], A_[3], None if scaling else np.zeros((1, 1)))
            if not (A_[0][0, 0] == lb and A_[1][0, 0] == ub and A_[2][0, 0] == plb and A_[3][0, 0] == pub):
                bad.setdefault("caller-arrays-modified", q)
        except Exception:  # noqa
            pass
        if bool(vt.apply_log_t[0, 0]) != islog:
            bad.setdefault("log-flag", q)
            continue
        pts, width, lo, hi = point_lattice(lb, plb, pub, ub, islog)
        npts += len(pts)
        X = np.array(pts)[:, None]
        U = vt(X)
        Xb = vt.inverse_transf(U)
        ref = np.array([ref_forward(p, plb, pub, islog) for p in pts])
        # conditioning of (p - mu)/gamma in floating point: a plausible range that is narrow relative to its
        # magnitude amplifies rounding by (|p| + |mu|)/gamma; the tolerance is 1e-12 plus that rounding bound
        eps = np.finfo(float).eps
        a, b = (math.log(plb), math.log(pub)) if islog else (plb, pub)
        zp = np.array([math.log(p) if islog else p for p in pts])
        tolu = 1e-12 * np.maximum(1.0, np.abs(ref)) + 16 * eps * (np.abs(zp) + abs(0.5 * (a + b))) / (0.5 * (b - a))
        if np.any(np.abs(U[:, 0] - ref) > tolu):
            bad.setdefault("forward-map/%s" % ("log" if islog else "affine"), (q, float(np.max(np.abs(U[:, 0] - ref)))))
        tolpm = 1e-12 + 16 * eps * (abs(a) + abs(b)) / (0.5 * (b - a))
        if abs(vt.plb[0, 0] + 1) > tolpm or abs(vt.pub[0, 0] - 1) > tolpm:
            bad.setdefault("plausible-not-pm1", (q, float(vt.plb[0, 0]), float(vt.pub[0, 0])))
        err = float(np.max(np.abs(Xb[:, 0] - np.array(pts))))
        if not err < 1e-9 * width:
            bad.setdefault("roundtrip/%s" % ("log" if islog else "affine"), (q, err / width))
        if np.any(np.diff(U[:, 0]) < 0) or np.any(np.diff(Xb[:, 0]) < 0):
            bad.setdefault("order-reversed", q)
        # (D,) vector input gives the same as (1,D)
        u1 = vt(np.array([pts[len(pts) // 2]]))
        if not np.array_equal(np.ravel(u1), np.ravel(U[len(pts) // 2])):
            bad.setdefault("vector-vs-matrix-input", q)
        if np.isfinite(lb):
            out = np.array([[lb - 1e-9 * width], [ub + 1e-9 * width], [lb - abs(lb) - 1.0], [ub + abs(ub) + 1.0]])
            if islog:
                # far outside: stay in the domain of the logarithm; *just* outside (first two rows) may be zero or negative
                out[2:] = np.maximum(out[2:], 1e-300)
            Uo = vt(out)
            if np.any(Uo < vt.lb) or np.any(Uo > vt.ub) or np.any(np.isnan(Uo)):
                bad.setdefault("clamp-forward", q)
            # order is preserved across the edge too: a point below the box maps to the lower edge, one above to the upper edge
            if not (Uo[0, 0] == vt.lb[0, 0] and Uo[2, 0] == vt.lb[0, 0] and Uo[1, 0] == vt.ub[0, 0] and Uo[3, 0] == vt.ub[0, 0]):
                bad.setdefault("order-reversed-outside/%s" % ("log" if islog else "affine"), (q, Uo.ravel().tolist()))
            wu = float(vt.ub[0, 0] - vt.lb[0, 0])
            Xo = vt.inverse_transf(np.array([[vt.lb[0, 0] - 1e-9 * wu], [vt.ub[0, 0] + 1e-9 * wu], [vt.lb[0, 0] - 1.0], [vt.ub[0, 0] + 1.0]]))
            if np.any(Xo < lb) or np.any(Xo > ub) or np.any(np.isnan(Xo)):
                bad.setdefault("clamp-inverse", q)
        # images of the hard bounds are the internal box
        if np.isfinite(lb):
            if not (vt(arr(lb))[0, 0] == vt.lb[0, 0] and vt(arr(ub))[0, 0] == vt.ub[0, 0]):
                bad.setdefault("bounds-image", q)
        # integer-typed arrays are another spelling of the same bounds
        if all(np.isfinite(v) and float(v).is_integer() and abs(v) < 2**53 for v in (lb, plb, pub, ub)):
            iarr = lambda v: np.array([[int(v)]])
            try:
                vi = VariableTransformer(1, iarr(lb), iarr(ub), iarr(plb), iarr(pub), None if scaling else np.zeros((1, 1)))
                same = all(np.array_equal(getattr(vi, a), getattr(vt, a)) for a in ("lb", "ub", "plb", "pub", "apply_log_t")) and np.array_equal(vi(X), U)
            except Exception as e:  # noqa
                same = False
            if not same:
                bad.setdefault("integer-typed-bounds", q)
    return n, npts, bad


REPS = {"log": (1e-3, 1e-2, 10.0, 1e3), "aff": (-5.0, -2.0, 2.0, 5.0), "unb": (-np.inf, -1.0, 3.0, np.inf), "lognarrow": (1.0, 2.0, 5.0, 10.0)}


def check_multi(combo):
    """D>=2 products of class representatives: batches (N,D) and vectors (D,) against the per-coordinate reference."""
    from pybads.variable_transformer import VariableTransformer

    D = len(combo)
    q = [REPS[c] for c in combo]
    lb = np.array([[x[0] for x in q]])
    plb = np.array([[x[1] for x in q]])
    pub = np.array([[x[2] for x in q]])
    ub = np.array([[x[3] for x in q]])
    bad = {}
    given = [a.copy() for a in (lb, ub, plb, pub)]
    try:
        vt = VariableTransformer(D, lb, ub, plb, pub)
    except Exception as e:  # noqa
        return 1, {"construct-multi/%s" % type(e).__name__: (combo, str(e)[:60])}
    # the caller's own arrays are inputs, not scratch space: unchanged after construction, and a second transformer built
    # from the same objects is the same transform
    if not all(np.array_equal(a, b, equal_nan=True) for a, b in zip((lb, ub, plb, pub), given)):
        bad["caller-arrays-modified"] = combo
    else:
        try:
            vt2 = VariableTransformer(D, lb, ub, plb, pub)
            if not all(np.array_equal(getattr(vt2, a), getattr(vt, a)) for a in ("lb", "ub", "plb", "pub", "apply_log_t")):
                bad["second-construction-differs"] = combo
        except Exception as e:  # noqa
            bad["second-construction-differs"] = combo
    flags = [ref_log(*x) for x in q]
    if list(vt.apply_log_t.ravel().astype(bool)) != flags:
        bad["log-flag-multi"] = combo
        return 1, bad
    cols = []
    for x, fl in zip(q, flags):
        pts, width, lo, hi = point_lattice(x[0], x[1], x[2], x[3], fl)
        cols.append(pts[:: max(1, len(pts) // 7)][:7])
    n = min(len(c) for c in cols)
    X = np.array([c[:n] for c in cols]).T
    U = vt(X)
    ref = np.array([[ref_forward(X[i, j], q[j][1], q[j][2], flags[j]) for j in range(D)] for i in range(n)])
    if not np.allclose(U, ref, rtol=1e-12, atol=1e-12 * max(1.0, np.max(np.abs(ref)))):
        bad["forward-map-multi"] = combo
    Xb = vt.inverse_transf(U)
    widths = np.array([(x[3] - x[0]) if np.isfinite(x[0]) else (x[2] - x[1]) for x in q])
    if np.any(np.abs(Xb - X) >= 1e-9 * widths):
        bad["roundtrip-multi"] = combo
    for i in range(n):
        if not np.array_equal(np.ravel(vt(X[i])), U[i]) or not np.array_equal(np.ravel(vt.inverse_transf(U[i])), Xb[i]):
            bad["vector-vs-matrix-multi"] = combo
            break
    # just-outside inputs, one coordinate at a time (the others at the middle of their plausible range): the coordinate's
    # image is the edge of the internal box - also when *another* coordinate is unbounded, and also for zero / negative
    # inputs below a log-scaled bound
    mid = np.array([[math.sqrt(x[1] * x[2]) if f_ else 0.5 * (x[1] + x[2]) for x, f_ in zip(q, flags)]])
    for j, x in enumerate(q):
        if not np.isfinite(x[0]):
            continue
        w_ = x[3] - x[0]
        for val, edge in ((x[0] - 1e-9 * w_, vt.lb[0, j]), (x[3] + 1e-9 * w_, vt.ub[0, j]), (x[0] - 0.5 * w_, vt.lb[0, j]), (x[3] + 0.5 * w_, vt.ub[0, j])):
            P_ = mid.copy()
            P_[0, j] = val
            u_ = vt(P_)
            if not (u_[0, j] == edge) or np.any(np.isnan(u_)):
                bad["order-reversed-outside-multi"] = (combo, j, float(val), float(u_[0, j]), float(edge))
                break
    return 1, bad


def replay(case, key):
    if case.get("kind") == "quad":
        n, npts, bad = check_block([tuple(case["q"])])
        return any(("C11/" + k) == key for k in bad)
    if case.get("kind") == "badslevel":
        n, bad = bads_level([tuple(case["q"][:4])])
        return any(("C11/" + k) == key for k in bad)
    n, bad = check_multi(tuple(case["combo"]))
    return any(("C11/" + k) == key for k in bad)


def bads_level(block):
    """The same log rule as seen through BADS(...): options['nonlinear_scaling'] True / False / absent decides together with
    the bounds whether a coordinate is log-transformed (BADS may first move plausible bounds that are within 0.1% of the
    hard bounds; the rule is evaluated on the bounds as BADS hands them to the transformer)."""
    import logging

    from pybads import BADS

    logging.disable(logging.CRITICAL)
    bad = {}
    n = 0
    for (lb, plb, pub, ub) in block:
        for opt in ({}, {"nonlinear_scaling": True}, {"nonlinear_scaling": False}):
            n += 1
            scaling = opt.get("nonlinear_scaling", True)
            x0 = math.sqrt(plb * pub) if plb > 0 else 0.5 * (plb + pub)
            try:
                b = BADS(lambda x: 0.0, np.array([[x0]]), np.array([[lb]]), np.array([[ub]]), np.array([[plb]]), np.array([[pub]]), options=dict(opt, display="off"))
            except Exception as e:  # noqa
                bad.setdefault("bads-level/construct/%s" % type(e).__name__, ((lb, plb, pub, ub, scaling), str(e)[:60]))
                continue
            vt = b.var_transf
            if bool(vt.apply_log_t[0, 0]) != ref_log(float(vt.orig_lb[0, 0]), float(vt.orig_plb[0, 0]), float(vt.orig_pub[0, 0]), float(vt.orig_ub[0, 0]), scaling):
                bad.setdefault("bads-level/log-flag/%s" % ("scaling-on" if scaling else "scaling-off"), (lb, plb, pub, ub, scaling))
    return n, bad


def run(ctx):
    rep = Report(ctx, "model_checking")
    q = ctx.quick
    quads = [(a, b, c, d, s) for (a, b, c, d) in quadruples(q) for s in (True, False)]
    allq = quadruples(q)
    elig = [qd for qd in allq if ref_log(*qd)]
    rest = [qd for qd in allq if not ref_log(*qd)]
    fin = elig[:: max(1, len(elig) // (300 if q else 3000))] + rest[:: max(1, len(rest) // (200 if q else 2000))]
    NB = 0
    for n, bad in pmap(bads_level, [fin[i:i + 50] for i in range(0, len(fin), 50)]):
        NB += n
        for k, v in bad.items():
            rep.violation("BADS does not apply the log rule the statement gives (nonlinear_scaling option x bounds)", k, v, dict(kind="badslevel", q=list(v[0] if isinstance(v[0], tuple) else v)))
    rep.set("bads_level_constructions", NB)
    B = 400
    blocks = [quads[i:i + B] for i in range(0, len(quads), B)]
    N = NP = 0
    for n, npts, bad in pmap(check_block, blocks):
        N += n
        NP += npts
        for k, v in bad.items():
            qq = v[0] if isinstance(v, tuple) and isinstance(v[0], tuple) else v
            rep.violation("variable transform violates the statement on a valid bound quadruple", k, v, dict(kind="quad", q=list(qq)))
    combos = [c for D in (2, 3) for c in itertools.product(sorted(REPS), repeat=D)]
    NM = 0
    for n, bad in pmap(check_multi, combos, chunksize=8):
        NM += n
        for k, v in bad.items():
            rep.violation("variable transform violates the statement on a mixed-coordinate problem", k, v, dict(kind="multi", combo=list(v if isinstance(v, tuple) and isinstance(v[0], str) else v[0])))
    rep.set("states", max(1, N + NM))
    rep.set("transitions", max(1, NP))
    rep.set("traces_validated_against_impl", N + NM)
    rep.set("valid_quadruples", N)
    rep.set("points_checked", NP)
    rep.set("multi_coordinate_problems", NM)
    rep.sample(dict(quadruple=[1e-3, 0.5, 10.0, 1e3], nonlinear_scaling=True, expected="log", points="bounds, midpoints (arith/geom), 9 linear + 9 geometric lattice points, one-ulp neighbours, just-outside inputs"))
    rep.assumptions += ["bound magnitudes from the lattice +-{1e-12..1e12} u {0} u {+-inf}; D<=3"]
    if N < 1000:
        raise HarnessError("vacuous")
    return rep.finish(replay)
