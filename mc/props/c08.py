"""C08 -- problem definitions are validated exactly: invalid ones raise ValueError (target never called), valid ones
are accepted and normalised; equivalent spellings define the same problem and produce the same run.
E3 over the per-coordinate value lattice^5 (D=1), class products (D=2,3), dimension mismatches and spellings."""
import hashlib
import itertools

import numpy as np

from ..common import HarnessError, Report, pmap

PID = "C08"


class _NA:
    def __eq__(s, o):
        return isinstance(o, _NA)

    def __ne__(s, o):
        return not isinstance(o, _NA)

    def __hash__(s):
        return 7

    def __repr__(s):
        return "NA"


NA = _NA()
V_FULL = [NA, -np.inf, -2.0, -1.0, float(np.nextafter(-1, 0)), 0.0, 1e-4, 3e-4, 1.0, 2.0, 10.0, np.inf, float("nan")]
V_QUICK = [NA, -np.inf, -1.0, float(np.nextafter(-1, 0)), 0.0, 1e-4, 3e-4, 10.0, np.inf, float("nan")]


def ulps_apart(a, b, k=4):
    return np.isfinite(a) and np.isfinite(b) and a != b and abs(b - a) <= k * np.spacing(max(abs(a), abs(b)))


def validate1(x0, lb, plb, pub, ub):
    """3-valued validator for one coordinate, transcribed from the statement (not from the code)."""
    L = -np.inf if lb == NA else lb
    U = np.inf if ub == NA else ub
    P = L if plb == NA else plb
    Q = U if pub == NA else pub
    if any(np.isnan(v) for v in (L, U, P, Q)):
        return "REJECT", "nan-bound"
    if not (np.isfinite(P) and np.isfinite(Q)):
        return "REJECT", "plausible-nonfinite"
    if P == Q:
        return "REJECT", "plausible-equal"
    if not (L <= P < Q <= U):
        return "REJECT", "order"
    if L == U:
        return "REJECT", "fixed"
    if np.isfinite(L) != np.isfinite(U):
        return "REJECT", "half-bounded"
    if ulps_apart(L, U):
        return "EITHER", "hard-bounds-within-ulps"
    if ulps_apart(P, Q):
        return "EITHER", "plausible-within-ulps"
    if x0 != NA:
        if np.isnan(x0) or np.isinf(x0):
            return "EITHER", "x0-nonfinite"
        if x0 < L or x0 > U:
            return "REJECT", "x0-outside"
    return "ACCEPT", ""


def validate(cols):
    """cols: list of per-coordinate (x0, lb, plb, pub, ub); an argument is absent iff absent in every coordinate."""
    D = len(cols)
    absent = [all(c[i] == NA for c in cols) for i in range(5)]
    # dimension inferable: x0, or both plausible bounds (each defaulting to a given hard bound)
    if absent[0]:
        pl_ok = (not absent[2]) or (not absent[1])
        pu_ok = (not absent[3]) or (not absent[4])
        if not (pl_ok and pu_ok):
            return "REJECT", "no-dimension"
    verdicts = [validate1(*c) for c in cols]
    for v, why in verdicts:
        if v == "REJECT":
            return v, why
    for v, why in verdicts:
        if v == "EITHER":
            return v, why
    return "ACCEPT", ""


def build_args(cols, spelling="array2d"):
    D = len(cols)
    out = []
    for i in range(5):
        vals = [c[i] for c in cols]
        if all(v == NA for v in vals):
            out.append(None)
            continue
        if i == 0:
            vals = [np.nan if v == NA else v for v in vals]
        elif i in (1, 4):
            vals = [(-np.inf if i == 1 else np.inf) if v == NA else v for v in vals]
        else:  # a plausible bound absent in some coordinates only: spelled out as its documented default, the hard bound
            hard = [c[1 if i == 2 else 4] for c in cols]
            vals = [((-np.inf if i == 2 else np.inf) if h == NA else h) if v == NA else v for v, h in zip(vals, hard)]
        a = np.array(vals, float)
        if spelling == "array2d":
            out.append(a.reshape(1, D))
        elif spelling == "array1d":
            out.append(a.copy())
        elif spelling == "list":
            out.append([float(v) for v in vals])
        elif spelling == "tuple":
            out.append(tuple(float(v) for v in vals))
        elif spelling == "int":
            out.append(np.array([int(v) if np.isfinite(v) else v for v in vals]) if all(np.isfinite(v) and float(v).is_integer() for v in vals) else a.reshape(1, D))
        elif spelling == "scalar":
            out.append(float(vals[0]) if D == 1 else a.reshape(1, D))
        elif spelling == "intscalar":
            out.append(int(vals[0]) if D == 1 and np.isfinite(vals[0]) and float(vals[0]).is_integer() else (float(vals[0]) if D == 1 else a.reshape(1, D)))
        else:
            raise ValueError(spelling)
    return out


def construct(cols, spelling="array2d", run=False, args=None):
    from pybads import BADS

    n = [0]
    h = hashlib.sha256()

    def f(x):
        n[0] += 1
        xx = np.asarray(x, float)
        h.update(xx.tobytes())
        return float(np.sum((np.where(xx > 0, np.log10(np.maximum(xx, 1e-300)), xx) - 0.3) ** 2))

    x0, lb, plb, pub, ub = args if args is not None else build_args(cols, spelling)
    res = dict(got=None, attrs=None, digest=None, calls0=None)
    try:
        b = BADS(f, x0=x0, lower_bounds=lb, upper_bounds=ub, plausible_lower_bounds=plb, plausible_upper_bounds=pub,
                 options={"display": "off", "random_seed": 3, "max_fun_evals": 14})
        res["got"] = "ACCEPT"
        vt = b.var_transf
        L, U, P, Q = vt.orig_lb, vt.orig_ub, vt.orig_plb, vt.orig_pub
        post = bool(np.all(L <= P) and np.all(P < Q) and np.all(Q <= U) and np.all(np.isfinite(b.x0)) and np.all((b.x0 > L) | ~np.isfinite(L)) and np.all((b.x0 < U) | ~np.isfinite(U)))
        if not post:
            res["got"] = "ACCEPT-badpost"
        res["attrs"] = (np.ravel(L).tolist(), np.ravel(U).tolist(), np.ravel(P).tolist(), np.ravel(Q).tolist(), np.ravel(vt.apply_log_t).astype(bool).tolist(),
                        np.ravel(vt.lb).tolist(), np.ravel(vt.ub).tolist(), np.ravel(b.x0).tolist() if all(c[0] != NA for c in cols) else None)
        res["calls0"] = n[0]
        if run:
            r = b.optimize()
            h.update(np.asarray(r["x"], float).tobytes())
            h.update(np.float64(r["fval"]).tobytes())
            res["digest"] = h.hexdigest()[:16] + "/%d" % n[0]
    except ValueError as e:
        res["got"] = "REJECT" if res["got"] is None else "RUN-FAILED:ValueError"
        res["msg"] = str(e)[:80]
        res["calls0"] = n[0] if res["calls0"] is None else res["calls0"]
    except Exception as e:  # noqa
        res["got"] = ("EXC:" if res["got"] is None else "RUN-FAILED:") + type(e).__name__
        res["msg"] = str(e)[:80]
        res["calls0"] = n[0] if res["calls0"] is None else res["calls0"]
    return res


def judge_cells(cells):
    out = []
    n = 0
    stats = {}
    for cols in cells:
        n += 1
        exp, why = validate(cols)
        r = construct(cols)
        got = r["got"]
        stats[(exp, got)] = stats.get((exp, got), 0) + 1
        key = None
        if r["calls0"]:
            key = "target-called-at-construction/%s" % why
        elif got.startswith("EXC"):
            key = "wrong-exception/%s/%s" % (got[4:], why or "valid")
        elif exp == "ACCEPT" and got == "REJECT":
            key = "valid-rejected/%s" % classify_valid(cols)
        elif exp in ("ACCEPT", "EITHER") and got == "ACCEPT-badpost":
            # also for the don't-care cells: *if* a definition is accepted, it must come out normalised (x0 strictly inside)
            key = "accepted-not-normalised/%s" % (classify_valid(cols) if exp == "ACCEPT" else why)
        elif exp == "REJECT" and got.startswith("ACCEPT"):
            key = "invalid-accepted/%s" % why
        if key:
            out.append((key, [list(map(_j, c)) for c in cols], r.get("msg")))
    return n, out, stats


def _j(v):
    if v == NA:
        return "NA"
    if isinstance(v, float) and np.isnan(v):
        return "nan"
    if isinstance(v, float) and np.isinf(v):
        return "inf" if v > 0 else "-inf"
    return v


def _unj(v):
    return NA if v == "NA" else (float("nan") if v == "nan" else (np.inf if v == "inf" else (-np.inf if v == "-inf" else v)))


def classify_valid(cols):
    """Input class of a valid definition (for violation keys)."""
    tags = []
    for (x0, lb, plb, pub, ub) in cols:
        L = -np.inf if lb == NA else lb
        U = np.inf if ub == NA else ub
        t = "bounded" if np.isfinite(L) else "unbounded"
        P = L if plb == NA else plb
        Q = U if pub == NA else pub
        if np.isfinite(L):
            m = 1e-3 * (U - L)
            if Q <= L + m or P >= U - m:
                t += "+plausible-inside-margin"
        tags.append(t)
    return "|".join(sorted(set(tags)))


# class representatives for D>=2 products
REP = {
    "bounded": (0.5, -2.0, -1.0, 1.0, 2.0),
    "bounded-noplaus": (0.5, -2.0, NA, NA, 2.0),
    "unbounded": (0.0, -np.inf, -1.0, 1.0, np.inf),
    "log": (5.0, 1e-3, 1e-2, 1e2, 1e3),
    "x0-on-bound": (2.0, -2.0, -1.0, 1.0, 2.0),
    "inv-order": (0.0, -2.0, 1.0, -1.0, 2.0),
    "inv-half": (0.0, -2.0, -1.0, 1.0, np.inf),
    "inv-half-upper": (0.0, -np.inf, -1.0, 1.0, 2.0),
    "inv-x0out": (5.0, -2.0, -1.0, 1.0, 2.0),
    "inv-fixed": (1.0, 1.0, 1.0, 1.0, 1.0),
    "inv-plaus-equal": (0.0, -2.0, 1.0, 1.0, 2.0),
    "inv-plaus-inf": (0.0, -np.inf, -np.inf, 1.0, np.inf),
    "inv-nan": (0.0, -2.0, float("nan"), 1.0, 2.0),
    # hard bounds one ulp apart (don't-care verdict, but if accepted the start must be strictly inside): next to ordinary variables
    "inv-ulps": (-1.0, -1.0, NA, NA, float(np.nextafter(-1.0, 0.0))),
    "inv-ulps-nox0": (NA, 1.0, NA, NA, float(np.nextafter(1.0, 2.0))),
}


def multi_cells(quick):
    names = list(REP)
    valid = [n for n in names if not n.startswith("inv")]
    cells = []
    for a, b in itertools.product(names, repeat=2):
        cells.append([REP[a], REP[b]])
    for tri in itertools.product(valid[:4], repeat=3):
        cells.append([REP[t] for t in tri])
    for inv in [n for n in names if n.startswith("inv")]:
        for pos in range(3):
            c = [REP["bounded"], REP["unbounded"], REP["log"]]
            c[pos] = REP[inv]
            cells.append(c)
    # x0 absent in all coordinates
    for a, b in itertools.product(valid[:4], repeat=2):
        cells.append([(NA,) + REP[a][1:], (NA,) + REP[b][1:]])
    return cells


def mismatch_cases(_):
    """Each argument one longer / shorter than the others: must be ValueError, target never called."""
    from pybads import BADS

    out = []
    n = 0
    for D in (1, 2, 3):
        base = dict(x0=np.zeros((1, D)), lower_bounds=np.full((1, D), -2.0), upper_bounds=np.full((1, D), 2.0),
                    plausible_lower_bounds=np.full((1, D), -1.0), plausible_upper_bounds=np.full((1, D), 1.0))
        for k in base:
            for d2 in (D + 1, D - 1):
                if d2 < 1:
                    continue
                kw = dict(base)
                kw[k] = np.full((1, d2), base[k][0, 0])
                calls = [0]

                def f(x):
                    calls[0] += 1
                    return 0.0

                n += 1
                try:
                    BADS(f, options={"display": "off"}, **kw)
                    out.append(("invalid-accepted/dimension-mismatch/%s" % k, (D, d2), None))
                except ValueError:
                    pass
                except Exception as e:  # noqa
                    out.append(("wrong-exception/%s/dimension-mismatch" % type(e).__name__, (k, D, d2), str(e)[:80]))
                if calls[0]:
                    out.append(("target-called-at-construction/dimension-mismatch", (k, D, d2), None))
    return n, out


SPELLINGS_1D = ["array2d", "array1d", "list", "tuple", "int", "scalar", "intscalar"]
SPELLINGS_ND = ["array2d", "array1d", "list", "tuple", "int"]


def spelling_case(item):
    cols, run = item
    D = len(cols)
    ref = construct(cols, "array2d", run=run)
    out = []
    n = 0
    for sp in (SPELLINGS_1D if D == 1 else SPELLINGS_ND):
        if sp == "array2d":
            continue
        n += 1
        r = construct(cols, sp, run=run)
        tag = "x0-absent" if all(c[0] == NA for c in cols) else "x0-given"
        if r["got"] != ref["got"]:
            out.append(("spelling-outcome-differs/%s/%s" % (sp, tag), ([list(map(_j, c)) for c in cols], ref["got"], r["got"], r.get("msg")), None))
        elif r["attrs"] != ref["attrs"]:
            out.append(("spelling-defines-different-problem/%s/%s" % (sp, classify_valid(cols)), ([list(map(_j, c)) for c in cols], ref["attrs"], r["attrs"]), None))
        elif run and r["digest"] != ref["digest"]:
            out.append(("spelling-run-differs/%s" % sp, ([list(map(_j, c)) for c in cols], ref["digest"], r["digest"]), None))
    # the caller re-uses the very same array objects for a second construction (multi-start loop): same problem again
    for sp in ("array2d", "array1d"):
        if sp == "array1d" and D == 1 and "array1d" not in SPELLINGS_1D:
            continue
        args = build_args(cols, sp)
        r1 = construct(cols, sp, args=args)
        r2 = construct(cols, sp, args=args)
        n += 2
        if r2["got"] != r1["got"] or r2["attrs"] != r1["attrs"] or r1["got"] != ref["got"]:
            out.append(("same-arrays-second-construction-differs/%s/%s" % (sp, classify_valid(cols)), ([list(map(_j, c)) for c in cols], r1["got"], r2["got"], r2.get("msg")), None))
    return n, out


def replay(case, key):
    kind = case.get("kind")
    if kind == "cell":
        cols = [tuple(_unj(v) for v in c) for c in case["cols"]]
        n, out, _ = judge_cells([cols])
        return any(("C08/" + k) == key for k, _, _ in out)
    if kind == "mismatch":
        n, out = mismatch_cases(0)
        return any(("C08/" + k) == key for k, _, _ in out)
    if kind == "spelling":
        cols = [tuple(_unj(v) for v in c) for c in case["cols"]]
        n, out = spelling_case((cols, case["run"]))
        return any(("C08/" + k) == key for k, _, _ in out)
    return False


def run(ctx):
    rep = Report(ctx, "model_checking")
    q = ctx.quick
    V = V_QUICK if q else V_FULL
    if q:
        # quick: 5 arguments from a reduced lattice (x0 from a smaller one)
        X0 = [NA, -1.0, 0.0, 10.0, np.inf, float("nan")]
        cells1 = [[(x0, lb, plb, pub, ub)] for x0 in X0 for lb in V for plb in V for pub in V for ub in V]
    else:
        cells1 = [[c] for c in itertools.product(V, repeat=5)]
    # plausible intervals lying inside the 0.1% margin of a hard bound and ending exactly at (or one ulp around) the margin
    mg = []
    for lb_, ub_ in ((0.0, 1.0), (0.0, 1000.0), (-10.0, 10.0), (-2.0, 2.0), (1.0, 3.0)):
        m_ = 1e-3 * (ub_ - lb_)
        lo_e, hi_e = lb_ + m_, ub_ - m_
        for e_ in (lo_e, float(np.nextafter(lo_e, ub_)), float(np.nextafter(lo_e, lb_))):
            for x0_ in (NA, 0.5 * (lb_ + ub_)):
                mg += [[(x0_, lb_, lb_, e_, ub_)], [(x0_, lb_, lb_ + 0.5 * m_, e_, ub_)]]
        for e_ in (hi_e, float(np.nextafter(hi_e, ub_)), float(np.nextafter(hi_e, lb_))):
            for x0_ in (NA, 0.5 * (lb_ + ub_)):
                mg += [[(x0_, lb_, e_, ub_, ub_)], [(x0_, lb_, e_, ub_ - 0.5 * m_, ub_)]]
    # a plausible box one ulp wide that touches a hard bound, x0 absent (the random start must not land on the bound)
    for lb_, ub_ in ((-2.0, float(np.nextafter(-1, 0))), (float(np.nextafter(1, 2)) - 2.0 ** -52 * 0, 3.0)):
        mg += [[(NA, lb_, float(np.nextafter(ub_, lb_)), NA, ub_)], [(NA, lb_, float(np.nextafter(ub_, lb_)), ub_, ub_)],
               [(NA, lb_, NA, float(np.nextafter(lb_, ub_)), ub_)], [(NA, lb_, lb_, float(np.nextafter(lb_, ub_)), ub_)]]
    # plausible boxes with one end of ordinary size and the other many orders of magnitude away (valid; the transformer's
    # self-test must scale its tolerance with the box)
    for big in (1e9, 3.7e10, 4.0e11, 2.5e12, 1.7e12):
        for hb in (np.inf, 10.0 * big):
            mg += [[(NA, -hb, -0.3, big, hb)], [(-1.0, -hb, -big, -0.3, hb)], [(1.0, -hb, 0.3, big, hb)], [(5.0, -hb, 0.7, 0.77 * big, hb)]]
    cells = cells1 + multi_cells(q) + mg
    B = 600
    blocks = [cells[i:i + B] for i in range(0, len(cells), B)]
    N = 0
    stats = {}
    for n, out, st in pmap(judge_cells, blocks):
        N += n
        for k, v in st.items():
            stats[k] = stats.get(k, 0) + v
        for key, cols, msg in out:
            rep.violation("problem definition not validated as the statement says", key, dict(cols=cols, msg=msg), dict(kind="cell", cols=cols))
    nm, out = mismatch_cases(0)
    for key, d, msg in out:
        rep.violation("dimension mismatch not rejected with ValueError", key, dict(case=d, msg=msg), dict(kind="mismatch"))
    # spellings: every valid D=1 cell of a sub-lattice + valid class pairs; a fixed sub-family is also *run*
    valid1 = [c for c in cells1 if validate(c)[0] == "ACCEPT"]
    step = max(1, len(valid1) // (150 if q else 1200))
    sp_items = [(c, False) for c in valid1[::step]]
    vnames = [n_ for n_ in REP if not n_.startswith("inv")]
    sp_items += [([REP[a], REP[b]], False) for a, b in itertools.product(vnames, repeat=2)]
    sp_items += [([(NA,) + REP[a][1:], (NA,) + REP[b][1:]], False) for a, b in itertools.product(vnames[:4], repeat=2)]
    runfam = [[REP[a]] for a in vnames] + [[(NA,) + REP[a][1:]] for a in vnames[:4]] + [[REP[a], REP[b]] for a, b in itertools.product(vnames[:4], repeat=2)]
    runfam += [[(-1.0, -2, -1, 1, 2)], [(1.0, -10, NA, NA, 10)], [(3.0, 1, 2, 200, 1000)]]  # integer-valued definitions (int spellings differ in dtype)
    sp_items += [(c, True) for c in runfam]
    NS = 0
    for (cols, run_), (n, out) in zip(sp_items, pmap(spelling_case, sp_items, chunksize=2)):
        NS += n
        for key, d, msg in out:
            rep.violation("equivalent spellings do not define the same problem / the same run", key, d, dict(kind="spelling", cols=[list(map(_j, c)) for c in cols], run=run_))
    rep.set("states", N + nm + NS)
    rep.set("transitions", N + nm + NS)
    rep.set("traces_validated_against_impl", N + nm + NS)
    rep.set("cells_D1", len(cells1))
    rep.set("cells_multi", len(cells) - len(cells1))
    rep.set("dimension_mismatch_cases", nm)
    rep.set("spelling_constructions", NS)
    rep.set("spelling_problems_run", len(runfam))
    rep.set("verdict_table", {"%s->%s" % k: v for k, v in sorted(stats.items())})
    rep.sample(dict(cell=["x0=NA", "lb=-1", "plb=nextafter(-1,0)", "pub=0", "ub=10"], expected=validate([(NA, -1.0, float(np.nextafter(-1, 0)), 0.0, 10.0)])))
    rep.assumptions += ["don't-care (ValueError or acceptance): x0 containing NaN/inf; hard or plausible bounds 1-4 ulp apart", "D<=3; value lattice of %d values per argument" % len(V)]
    if N < 5000:
        raise HarnessError("vacuous")
    return rep.finish(replay)
