"""C03 -- optimize() terminates within the evaluation budget and counts honestly (M1 + E1)."""
from .loopmodel import make_replay, run_loop

PID = "C03"
replay = make_replay(PID)


def run(ctx):
    return run_loop(ctx, PID)
