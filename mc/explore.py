"""E1: stateless deviation-bounded exploration of real optimize() runs (iterative bounding).

A *script* lists the non-default environment answers.  Level 0 runs every base job with its own
script; level d+1 takes every execution of level d and, for every choice point it exposed *after*
its last deviation, schedules every alternative answer.  Every execution runs to completion.
Completed bound, executions, choice points and distinct outcomes are reported by the caller.
"""
import copy
import json

from .common import HarnessError, pmap, pool
from .harness import execute
from .problems import default_ans

ALTS = {
    "ans": ["F", "I", "S", "E"],  # minus the base policy's default at that call -- simplest first
    "noise": ["LOW", "HIGH"],
    "fit": [1],
    "pred": [1],
}


def _script_devs(script, kinds):
    devs = []
    for kind in kinds:
        v = script.get(kind)
        if not v:
            continue
        if isinstance(v, dict):
            devs += [(kind, int(p)) for p in v]
        else:
            devs += [(kind, int(p)) for p in v]
    return devs


def _with_dev(job, kind, pos, alt):
    j = copy.deepcopy(job)
    sc = j.setdefault("script", {})
    if kind in ("ans", "noise"):
        sc.setdefault(kind, {})[str(pos)] = alt
    else:
        sc[kind] = sorted(set(list(sc.get(kind) or []) + [pos]))
    return j


def _run(job):
    return job, execute(job)


def explore(base_jobs, kinds, bound, sink, alts=None, pos_ok=None, cap=None, stats=None, name=None):
    """sink(job, res, depth) is called for every execution.  pos_ok(kind, pos, res) may restrict
    deviation positions (a *declared* window; reported by the caller).  cap = max executions."""
    alts = alts or ALTS
    stats = stats if stats is not None else {}
    stats.setdefault("executions", 0)
    stats.setdefault("choice_points", 0)
    stats.setdefault("by_depth", {})
    stats["bound_completed"] = -1
    stats.setdefault("stages", [])
    stage = dict(name=name or "stage%d" % len(stats.setdefault("stages", [])), kinds=list(kinds), bound_requested=bound,
                 base_jobs=len(base_jobs), executions=0, bound_completed=-1)
    stats["stages"].append(stage)
    level = [copy.deepcopy(j) for j in base_jobs]
    capped = False
    for depth in range(bound + 1):
        nxt = []
        if cap is not None and stats["executions"] + len(level) > cap:
            level = level[: max(0, cap - stats["executions"])]
            capped = True
        p = pool()
        for job, res in p.imap_unordered(_run, level, chunksize=2):
            stats["executions"] += 1
            stage["executions"] += 1
            stats["by_depth"][depth] = stats["by_depth"].get(depth, 0) + 1
            cps = [tuple(c) for c in res["choice_points"]]
            devs = _script_devs(job.get("script") or {}, kinds)
            idx_last = -1
            for d in devs:
                hits = [i for i, c in enumerate(cps) if (c[0], c[1]) == d]
                if not hits:
                    # a scheduled deviation that the run never reached: only legal if the run was
                    # cut short by an exception before reaching it
                    if res["exc"] is None:
                        raise HarnessError("replay divergence: deviation %r not met in %r" % (d, job))
                    continue
                idx_last = max(idx_last, hits[0])
            stats["choice_points"] += sum(1 for c in cps if c[0] in kinds)
            sink(job, res, depth)
            if depth < bound:
                for i, c in enumerate(cps):
                    if i <= idx_last or c[0] not in kinds:
                        continue
                    if pos_ok is not None and not pos_ok(c[0], c[1], res):
                        continue
                    for alt in alts[c[0]]:
                        if c[0] == "ans" and alt == default_ans(job.get("base", "F"), c[1]):
                            continue
                        nxt.append(_with_dev(job, c[0], c[1], alt))
        if capped:
            stats["capped"] = True
            stage["capped"] = True
            break
        stats["bound_completed"] = depth
        stage["bound_completed"] = depth
        # canonical order: which executions a capped level keeps must not depend on worker completion order
        nxt.sort(key=lambda j: json.dumps(j, sort_keys=True, default=repr))
        level = nxt
        if not level:
            stats["bound_completed"] = bound
            stage["bound_completed"] = bound
            break
    return stats
