"""E2: explicit-state breadth-first search over operation histories of a real component object, compared with
a reference model after every operation.  `step(real, ref, op)` applies op to deep copies and returns
(real', ref', verdicts); `canon(ref)` is the canonical state (the reference model's state determines every
later observable of the menu by construction)."""
import copy


def bfs(init_real, init_ref, ops, step, canon, depth, on_violation, cap=None, make=None):
    """make() -> (fresh real, fresh ref): if given, states are rebuilt by replaying their history on fresh objects
    (for real objects that cannot be deep-copied) instead of copying."""
    seen = {canon(init_ref)}
    frontier = [(init_real, init_ref, [])]
    transitions = 0
    maxdepth = 0
    exhausted = True
    for d in range(depth):
        nxt = []
        for real, ref, hist in frontier:
            for op in ops:
                if make is None:
                    r2, m2 = copy.deepcopy(real), copy.deepcopy(ref)
                else:
                    r2, m2 = make()
                    for o in hist:
                        step(r2, m2, o)
                verdicts = step(r2, m2, op)
                transitions += 1
                for v in verdicts:
                    on_violation(v, hist + [op])
                k = canon(m2)
                if k not in seen:
                    seen.add(k)
                    nxt.append((r2 if make is None else None, m2 if make is None else None, hist + [op]))
                    maxdepth = d + 1
                if cap is not None and transitions >= cap:
                    return dict(states=len(seen), transitions=transitions, max_depth=maxdepth, frontier_exhausted=False)
        frontier = nxt
        if not frontier:
            break
    else:
        exhausted = not frontier
    return dict(states=len(seen), transitions=transitions, max_depth=maxdepth, frontier_exhausted=True, open_frontier_at_bound=len(frontier))
