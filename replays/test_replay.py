"""Plain pytest file: re-executes every recorded violation in this directory (and, with SEEDED=1, the artefacts kept
under ../seeded/*/replays/, which only reproduce when the corresponding patch is applied to /repo).
On the unchanged tree this directory holds no artefacts and the test is vacuous by design."""
import glob
import json
import os
import subprocess

import pytest

HERE = os.path.dirname(os.path.abspath(__file__))
FILES = sorted(glob.glob(os.path.join(HERE, "C*.json")))


@pytest.mark.parametrize("path", FILES or [None])
def test_replay(path):
    if path is None:
        pytest.skip("no recorded violations")
    pid = json.load(open(path))["property"]
    p = subprocess.run([os.path.join(HERE, "..", "check"), pid, "--replay", path], capture_output=True, text=True)
    assert p.returncode == 0, "violation reproduces:\n" + p.stdout[-2000:]
