------------------------------ MODULE BadsLoop ------------------------------
(* Control skeleton of BADS.optimize(): one step = one iteration of the      *)
(* `while not is_finished` loop (pybads/bads/bads.py, optimize() main loop   *)
(* and _poll_step_).  All operators that describe a step take the            *)
(* configuration record c explicitly, so that the *same* operator StepC      *)
(* that TLC model-checks (through Next) also judges implementation traces    *)
(* of many different configurations in one ASSUME (generated trace modules).    *)
EXTENDS Integers, Sequences, TLC
CONSTANTS D, NTry, N0, NP0, MaxFE, MaxIter, TolK, Cap, TSI, AccSteps,
          Accel, CompletePoll, Free, KeepLab
VARIABLES st, lab
vars == <<st, lab>>

Cfg == [D |-> D, NTry |-> NTry, N0 |-> N0, NP0 |-> NP0, MaxFE |-> MaxFE,
        MaxIter |-> MaxIter, TolK |-> TolK, Cap |-> Cap, TSI |-> TSI,
        AccSteps |-> AccSteps, Accel |-> Accel, CompletePoll |-> CompletePoll,
        Free |-> Free]

Min(a, b) == IF a < b THEN a ELSE b
SA == {"none", "E", "F", "I", "S"}
DrivenSA == {"none", "F", "I", "S"}
Labels == [sa : SA, n : 0..(2*D), nS : 0..(2*D), good : BOOLEAN,
           stallA : BOOLEAN, stallT : BOOLEAN, dnp : 0..D]
NoLabel == [sa |-> "none", n |-> 0, nS |-> 0, good |-> FALSE,
            stallA |-> FALSE, stallT |-> FALSE, dnp |-> 0]

InitStateC(c) == [sc |-> c.NTry, ss |-> 0, k |-> 0, fc |-> c.N0, np |-> c.NP0,
                  pit |-> 0, polls |-> 0, lvl |-> 0, hist |-> <<>>,
                  fin |-> FALSE, msg |-> ""]

HistAt(h, i) == h[i + 1]

\* all intermediate quantities of one loop iteration, as a record
CalcC(c, s, l) ==
  LET doSearch == (s.sc < c.NTry) /\ (s.np > c.D)
      evalS    == doSearch /\ l.sa # "E"
      sc1  == IF doSearch THEN s.sc + 1 ELSE s.sc
      fc1  == IF evalS THEN s.fc + 1 ELSE s.fc
      ss1  == IF doSearch /\ l.sa = "S" THEN s.ss + 1 ELSE s.ss
      lvl1 == IF c.Free THEN 0 ELSE IF doSearch /\ l.sa = "S" THEN s.lvl + 1 ELSE s.lvl
      stage  == (sc1 = 0) \/ (sc1 = c.NTry)
      doPoll == stage /\ ~(ss1 > 0)
      sc2  == IF stage THEN 0 ELSE sc1
      ss2  == IF stage THEN 0 ELSE ss1
      room == IF c.MaxFE > fc1 THEN c.MaxFE - fc1 ELSE 0
      nmax == Min(2 * c.D, room)
      good == IF c.Free THEN (doPoll /\ l.good) ELSE (doPoll /\ l.nS > 0)
      lvl2 == IF c.Free \/ ~doPoll THEN lvl1 ELSE lvl1 + l.nS
      ncalls == (IF evalS THEN 1 ELSE 0) + (IF doPoll THEN l.n ELSE 0)
      fc2  == s.fc + ncalls
      np2  == Min(c.D + 1, IF c.Free THEN s.np + l.dnp ELSE s.np + ncalls)  \* only "np > D" is ever read
      stalledA == IF c.Free THEN l.stallA
                  ELSE (s.pit > c.AccSteps /\ HistAt(s.hist, s.pit - c.AccSteps) = lvl2)
      k2 == IF ~doPoll THEN s.k
            ELSE IF good THEN Min(s.k + 1, c.Cap)
            ELSE IF c.Accel /\ s.pit > c.AccSteps /\ stalledA THEN s.k - 2
            ELSE s.k - 1
      cFE   == fc2 >= c.MaxFE
      cIT   == s.pit >= c.MaxIter - 1
      cMESH == k2 < -c.TolK
      cFUN  == IF c.Free THEN (s.pit > c.TSI - 1 /\ l.stallT)
               ELSE (s.pit > c.TSI - 1 /\ HistAt(s.hist, s.pit - c.TSI) = lvl2)
      fin2  == cFE \/ cIT \/ cMESH \/ cFUN
      msg2  == IF cFUN THEN "fun" ELSE IF cMESH THEN "mesh" ELSE IF cIT THEN "it"
               ELSE IF cFE THEN "fe" ELSE ""
      rec   == doPoll \/ fin2
      hist2 == IF c.Free THEN <<>>
               ELSE IF rec /\ Len(s.hist) = s.pit THEN Append(s.hist, lvl2)
               ELSE IF rec THEN [s.hist EXCEPT ![s.pit + 1] = lvl2] ELSE s.hist
      pit2  == IF doPoll /\ ~fin2 THEN s.pit + 1 ELSE s.pit
  IN [doSearch |-> doSearch, doPoll |-> doPoll, nmax |-> nmax, ncalls |-> ncalls,
      nxt |-> [sc |-> sc2, ss |-> ss2, k |-> k2, fc |-> fc2, np |-> np2, pit |-> pit2,
               polls |-> s.polls + (IF doPoll THEN 1 ELSE 0), lvl |-> lvl2,
               hist |-> hist2, fin |-> fin2, msg |-> msg2]]

EnabledC(c, s, l) ==
  LET r == CalcC(c, s, l) IN
  /\ ~s.fin
  /\ (r.doSearch => l.sa # "none") /\ (~r.doSearch => l.sa = "none")
  /\ (r.doPoll => /\ l.n <= r.nmax /\ l.nS <= l.n
                  /\ ((c.CompletePoll /\ ~c.Free) => l.n = r.nmax))
  /\ (~r.doPoll => l.n = 0 /\ l.nS = 0 /\ l.good = FALSE /\ l.stallA = FALSE)
  /\ (~c.Free => /\ l.good = (r.doPoll /\ l.nS > 0) /\ l.stallA = FALSE /\ l.stallT = FALSE
                 /\ l.dnp = 0 /\ l.sa \in DrivenSA)
  /\ (c.Free => l.nS = 0 /\ l.dnp <= r.ncalls)

StepC(c, s, l, t) == EnabledC(c, s, l) /\ t = CalcC(c, s, l).nxt

\* Candidate labels of a state: a superset of the enabled ones, built constructively so that TLC does
\* not enumerate the whole product Labels in every state.  CandComplete (checked as an invariant in the
\* small configurations) states that nothing enabled is missing.
Cand(c, s) ==
  LET doSearch == (s.sc < c.NTry) /\ (s.np > c.D)
      SAs == IF doSearch THEN (IF c.Free THEN {"E", "F", "I", "S"} ELSE {"F", "I", "S"}) ELSE {"none"}
      One(sa) ==
        LET r == CalcC(c, s, [NoLabel EXCEPT !.sa = sa])
            maxcalls == (IF doSearch /\ sa # "E" THEN 1 ELSE 0) + (IF r.doPoll THEN r.nmax ELSE 0)
        IN { [sa |-> sa, n |-> n, nS |-> nS, good |-> g, stallA |-> a, stallT |-> t, dnp |-> d] :
               n \in (IF r.doPoll THEN (IF c.CompletePoll /\ ~c.Free THEN {r.nmax} ELSE 0..r.nmax) ELSE {0}),
               nS \in (IF c.Free \/ ~r.doPoll THEN {0} ELSE 0..r.nmax),
               g \in (IF r.doPoll THEN BOOLEAN ELSE {FALSE}),
               a \in (IF r.doPoll /\ c.Free THEN BOOLEAN ELSE {FALSE}),
               t \in (IF c.Free THEN BOOLEAN ELSE {FALSE}),
               d \in (IF c.Free THEN 0..Min(maxcalls, c.D) ELSE {0}) }
  IN UNION { One(sa) : sa \in SAs }

Init == st = InitStateC(Cfg) /\ lab = NoLabel
Next == \E l \in Cand(Cfg, st) : /\ EnabledC(Cfg, st, l)
                          /\ st' = CalcC(Cfg, st, l).nxt
                          /\ lab' = (IF KeepLab THEN l ELSE NoLabel)
Spec == Init /\ [][Next]_vars /\ WF_vars(Next)

\* ---- properties (C03 / C13) -------------------------------------------------
Budget   == st.fc <= MaxFE
Iters    == st.polls <= MaxIter
MeshCap  == st.k <= Cap
SearchLE == Min(0, 2 * st.k - 10) <= st.k
MsgTrue  == st.fin =>
              \/ st.msg = "fe"   /\ st.fc >= MaxFE
              \/ st.msg = "it"   /\ st.pit >= MaxIter - 1
              \/ st.msg = "mesh" /\ st.k < -TolK
              \/ st.msg = "fun"  /\ st.pit > TSI - 1
MeshFloor == st.k >= -(TolK + 2)
CandComplete == \A l \in Labels : EnabledC(Cfg, st, l) => l \in Cand(Cfg, st)
Terminates == <>(st.fin)
=============================================================================
